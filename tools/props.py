"""Per-property checks (called by check.py).  Each function builds what it needs, generates the
cases for its tier from the seed, runs model and implementation, compares, searches for a
failing input when something no longer checks, and finishes with evidence + exit code."""
import json, os, re, itertools
import gen, oracle


def correspond(ck, res, cf, hbin, tag, env=None):
    """runs both sides on the case file; returns (impl, model) dicts id -> list of lines.
    Draw streams printed by the implementation side (identically seeded StdRng, see harness) are fed
    to the model's copy of the case (two passes), and removed from the observations."""
    if hbin is None:
        return {}, {}
    impl, f1 = ck.run_sharded(hbin, cf.lines, tag + ".impl", env=env)
    lines = cf.lines
    if any(o.startswith("inject ") for ls in impl.values() for o in ls):
        lines = []
        cur = None
        for l in cf.lines:
            if l.startswith("CASE "):
                cur = l.split()[1]
            if l == "END" and cur in impl:
                for o in impl[cur]:
                    if o.startswith("inject "):
                        lines.append(o[7:])
            lines.append(l)
        for cid in impl:
            impl[cid] = [o for o in impl[cid] if not o.startswith("inject ")]
    model, f2 = ck.run_sharded(os.path.join(ck.ROOT, "ocaml", "driver"), lines, tag + ".model")
    if f1:
        res.broken.append(("correspondence", "harness process failed", str(f1)))
    if f2:
        res.broken.append(("correspondence", "model driver process failed", str(f2)))
    return impl, model


# level currently claimed per property (kept in step with tools/mkmanifest.py); "exploration" = the
# property theorems are not finished yet: only the correspondence + judge decide
LEVEL = {"C09": "translation_validation"}
def level_of(pid):
    return LEVEL.get(pid, "proof")


def common_front(ck, res, pid, extra_files=(), ties=()):
    ok = ck.coq_build(res, pid if os.path.exists(os.path.join(ck.COQ, "Properties", pid + ".v")) else None, ties)
    ck.coq_hygiene(res)
    if os.path.exists(os.path.join(ck.COQ, "Properties", pid + ".v")):
        ck.coq_property_file(res, pid, extra_files)
    elif level_of(pid) == "proof":
        res.broken.append(("proof", "Properties/%s.v" % pid, "property file missing"))
    res.cov["checker_cmd"] = ("python3 tools/translate.py && make -C coq Extract.vo %s Properties/%s.vo (coq_makefile, full .vo) && "
                              "coqc -Q coq ADF coq/Properties/%s.v (Print Assumptions under every theorem)" % (" ".join("Gen/%s.vo" % t for t in ties), pid, pid))
    ck.build_driver(res)


def tt_of_regs(lines, nvars):
    """truth tables of every register of a PROG observation (from its own printed table)"""
    regs = {}
    table = None
    for l in lines:
        w = l.split(" ", 1)
        if w[0].startswith("r") and w[0][1:].isdigit():
            regs[int(w[0][1:])] = int(w[1])
        elif w[0] == "table":
            table = oracle.parse_table(w[1])
    if table is None:
        return None, None, None
    tts, varmask, full = oracle.truth_tables(table, nvars)
    return regs, table, tts


# ====================================================================== C20
def check_C20(ck, res, replay):
    common_front(ck, res, "C20")
    hbin = ck.build_harness(res)
    cf = gen.CaseFile()
    rng = gen.Rng(res.seed)
    if replay:
        r = json.load(open(replay))
        cf.add(r["kind"], r["body"])
    else:
        maxlen = 5 if res.tier == "quick" else 7
        for v in gen.iter_vectors(maxlen):
            if sum(1 for x in v if x > 1) > (5 if res.tier == "quick" else 6):
                continue
            body = ["v " + " ".join(map(str, v))]
            cf.add("ITER2", body)
            cf.add("ITER3", body)
        nrand = 300 if res.tier == "quick" else 3000
        for _ in range(nrand):
            ln = 6 + rng.below(9)
            v = [rng.pick([0, 1, 1, 0, 2, 5, 9, 100000]) for _ in range(ln)]
            while sum(1 for x in v if x > 1) > 8:
                v[rng.below(ln)] = rng.below(2)
            body = ["v " + " ".join(map(str, v))]
            cf.add("ITER2", body)
            cf.add("ITER3", body)
    cf_large = gen.CaseFile()
    if not replay:
        # long vectors (more than 2^16 statements): a few undecided positions at the far end, at the start and in between;
        # implementation only (the extracted model walks unary indices, minutes per vector), judged by the definition
        for k_, places in enumerate(([65536], [0, 65537], [70000, 131072], [3, 65535, 65536, 140001])):
            ln = max(places) + 2 + k_
            v = [(i * 7 + k_) % 2 for i in range(ln)]
            for pz in places:
                v[pz] = 2 + pz % 5
            body = ["v " + " ".join(map(str, v))]
            cf_large.add("ITER2", body, prefix="L")
            if len(places) <= 2:
                cf_large.add("ITER3", body, prefix="L")
    # 64 and more undecided positions: the enumeration cannot be exhausted, the first elements are taken
    cf_many = gen.CaseFile()
    if not replay:
        for k_ in (63, 64, 65, 70, 130):
            v = []
            for i in range(k_):
                v += [2 + i % 4] + ([i % 2] if i % 3 == 0 else [])
            cf_many.add("ITER2 6", ["v " + " ".join(map(str, v))], prefix="M", meta={"k": k_})
            cf_many.add("ITER3 6", ["v " + " ".join(map(str, v))], prefix="M", meta={"k": k_})
    impl, model = correspond(ck, res, cf, hbin, "C20")
    many = 0
    if hbin and cf_many.meta:
        out_m, _f = ck.run_sharded(hbin, cf_many.lines, "C20.many", timeout=600)
        for cid, (kind, body, meta) in cf_many.meta.items():
            a = out_m.get(cid)
            v = [int(x) for x in body[0].split()[1:]]
            many += 1
            what = None
            if not a or not a[0].startswith("seq"):
                what = "no sequence (%s)" % (a[:1] if a else a)
            else:
                seqs = [tuple(int(x) for x in s_.split(",")) for s_ in a[0][4:].split(" ") if s_]
                base = 2 if kind.startswith("ITER2") else 3
                okv = lambda w: len(w) == len(v) and all((x == y) if y < 2 else (x in ((0, 1) if base == 2 else (0, 1, y))) for x, y in zip(w, v))
                if len(seqs) != 6:
                    what = "yields %d interpretations where 6 of %d^%d were asked for" % (len(seqs), base, meta["k"])
                elif len(set(seqs)) != 6 or not all(okv(w) for w in seqs):
                    what = "the first interpretations are not distinct completions / refinements of the vector"
            if what:
                res.violations.append({"key": "iter:%s:undecided-%d" % (kind.split()[0], meta["k"]), "what": what + " (%d undecided positions)" % meta["k"], "kind": kind, "body": body, "observed": [(a or ["-"])[0][:200]]})
    res.extra["vectors_with_64_and_more_undecided_positions"] = many
    large_ids = set()
    if hbin and cf_large.meta:
        out_l, _f = ck.run_sharded(hbin, cf_large.lines, "C20.large", timeout=600)
        for cid, m_ in cf_large.meta.items():
            cf.meta["big" + cid] = m_
            impl["big" + cid] = out_l.get(cid)
            model["big" + cid] = out_l.get(cid)
            large_ids.add("big" + cid)
    nontriv = set()
    mism = 0
    for cid, (kind, body, _) in cf.meta.items():
        a, b = impl.get(cid), model.get(cid)
        v = [int(x) for x in body[0].split()[1:]]
        k = sum(1 for x in v if x > 1)
        if k >= 2:
            nontriv.add((kind, tuple(v)))
        # judge the implementation's sequence directly against the property text
        bad = None
        if a is None or not a or not a[0].startswith("seq"):
            bad = "no sequence (panic?)"
        else:
            seqs = [tuple(int(x) for x in s.split(",")) if s else () for s in a[0][4:].split(" ")] if a[0][4:] != "" else ([()] if len(v) == 0 else [])
            base = 2 if kind == "ITER2" else 3
            und = [i for i, x in enumerate(v) if x > 1]
            expect = set()
            for combo in itertools.product(range(base), repeat=k):
                w = list(v)
                for i, d in zip(und, combo):
                    w[i] = d if d < 2 else v[i]
                expect.add(tuple(w))
            if len(seqs) != base ** k:
                bad = "yields %d interpretations, expected %d" % (len(seqs), base ** k)
            elif set(seqs) != expect:
                bad = "set of yielded interpretations differs from the completions/refinements"
            elif len(set(seqs)) != len(seqs):
                bad = "duplicate interpretation"
            elif kind == "ITER3" and seqs[0] != tuple(v):
                bad = "does not start with the interpretation itself"
            if not bad:
                # the rest of the Iterator interface agrees with the sequence: count, last, nth, size_hint, the end is final
                api = [l for l in a if l.startswith("api ")]
                if api:
                    kv = dict(x.split("=", 1) for x in api[0].split()[1:])
                    hs = lambda t: ",".join(map(str, t))
                    kk = len(seqs) // 2
                    want_nth = "%d:%s" % (kk, hs(seqs[kk]) if kk < len(seqs) else "-")
                    want_rest = ",".join("%d:%d" % (j, len(seqs) - j) for j in (1, len(seqs) // 2, max(0, len(seqs) - 1)) if j < len(seqs))
                    if len(v) and kv.get("rest", want_rest) != want_rest:
                        bad = "after j calls of next() the iterator does not count the remaining interpretations (j:count = %s, the sequence has %d elements)" % (kv.get("rest"), len(seqs))
                    elif len(v) and (kv.get("count") != str(len(seqs)) or kv.get("last") != (hs(seqs[-1]) if seqs else "-") or kv.get("nth") != want_nth or kv.get("hint") != "1" or kv.get("fused") != "1"):
                        bad = "count / last / nth / size_hint / behaviour after the end disagree with the sequence of next(): %s" % api[0]
        if bad and cid in large_ids:
            res.violations.append({"key": "iter:%s:long-vector-%d" % (kind, len(v)), "what": bad + " (vector of %d statements, undecided at %s)" % (len(v), [i for i, x in enumerate(v) if x > 1]),
                                   "kind": kind, "body": ["(vector of %d entries, see what)" % len(v)], "observed": [(a or ["-"])[0][:200]]})
        elif bad:
            res.violations.append({"key": "iter:%s:%s" % (kind, ",".join(map(str, v))), "what": bad,
                                   "kind": kind, "body": body, "observed": a, "model": b})
        elif a != b:
            mism += 1
            res.broken.append(("correspondence", "iterator order differs from the model", "%s %s impl=%s model=%s" % (kind, body, a, b)))
    res.cov["evaluations"] = len(cf.meta)
    res.cov["distinct_nontrivial"] = len(nontriv)
    res.cov["exhaustive"] = False
    res.cov["rule"] = ("all vectors over {0,1,2,3,7} up to length %d (exhaustive) plus random vectors of length 6..14; "
                       "non-trivial = at least two undecided positions; both iterators on each vector; compared as sequences "
                       "with the extracted Coq model and judged against the definition of completion/refinement" % (5 if res.tier == "quick" else 7))
    res.cov["samples"] = [cf.meta[c][1][0][:200] for c in list(cf.meta)[-12:-6]]
    res.extra["order_mismatches"] = mism
    res.extra["long_vectors_implementation_only"] = len(large_ids)
    return ck.finish(res, level_of(res.pid), ASSUME_COMMON + ["Vec<Term> and usize arithmetic behave as lists and unbounded naturals"])


ASSUME_COMMON = [
    "the Coq model is hand-written; its tie to the Rust source is the correspondence run of this check (differential, bounded by the generators)",
    "Rust semantics of the transcribed functions; std collections behave as their abstract content",
]


# ====================================================================== C06 / C07 (operation programs)
def prog_cases(res, rng, quick_n, thorough_n, with_queries):
    cf = gen.CaseFile()
    n = quick_n if res.tier == "quick" else thorough_n
    for i in range(n):
        nv = 2 + rng.below(5 if res.tier == "quick" else 9)
        nops = 6 + rng.below(35 if res.tier == "quick" else 150)
        kind, body = gen.gen_prog(rng, nv, nops, queries=with_queries)
        cf.add(kind, body, meta={"nvars": nv})
    for i in range(max(50, n // 6)):
        nv = 4 + rng.below(3 if res.tier == "quick" else 5)
        kind, body = gen.gen_prog_sparse(rng, nv, queries=with_queries)
        cf.add(kind, body, prefix="s", meta={"nvars": nv})
    return cf


def judge_prog(cid, body, nvars, a, b):
    """returns (violation text or None, exact_match, iso_match) for one program"""
    exact = (a == b)
    if a is None or any(l.startswith("PANIC") for l in a):
        return "implementation panicked", exact, False
    regs, table, tts = tt_of_regs(a, nvars)
    if table is None:
        return "no table printed", exact, False
    bad = oracle.check_table(table)
    if bad:
        return "node table not canonical: " + "; ".join(bad[:3]), exact, False
    # same handle iff same function, on all handles of the table
    seen = {}
    for h, t in enumerate(tts):
        if t is None:
            return "handle %d cannot be evaluated" % h, exact, False
        if t in seen:
            return "handles %d and %d denote the same function" % (seen[t], h), exact, False
        seen[t] = h
    # every op computes the function it names
    full = (1 << (1 << nvars)) - 1
    ri = 0
    vals = []
    for line in body:
        w = line.split()
        if w[0] == "q":
            continue
        h = regs.get(ri)
        if h is None or h >= len(tts):
            return "register %d missing / out of range" % ri, exact, False
        got = tts[h]
        op = w[0]
        if op == "var":
            j = int(w[1]); exp = sum(1 << x for x in range(1 << nvars) if x >> j & 1)
        elif op == "const":
            exp = full if w[1] == "1" else 0
        elif op == "not":
            exp = full & ~vals[int(w[1])]
        elif op in ("and", "or", "imp", "iff", "xor"):
            x, y = vals[int(w[1])], vals[int(w[2])]
            exp = {"and": x & y, "or": x | y, "imp": (full & ~x) | y, "iff": full & ~(x ^ y), "xor": x ^ y}[op]
        elif op == "restrict":
            exp = oracle.tt_cofactor(vals[int(w[1])], int(w[2]), w[3] == "1", nvars)
        else:
            exp = got
        if got != exp:
            return "op %d (%s) returns a diagram of the wrong function" % (ri, line), exact, False
        vals.append(got)
        ri += 1
    # iso-level agreement with the model: same functions for all registers, same query answers
    iso = True
    if b is not None:
        mregs, mtable, mtts = tt_of_regs(b, nvars)
        if mtable is None:
            iso = False
        else:
            for r, h in regs.items():
                if r not in mregs or mtts[mregs[r]] != tts[h]:
                    iso = False
        qa = [l for l in a if l.startswith("q")]
        qb = [l for l in b if l.startswith("q")]
        if qa != qb:
            iso = False
    else:
        iso = False
    return None, exact, iso


def run_prog_check(ck, res, replay, pid, with_queries, quick_n, thorough_n):
    common_front(ck, res, pid)
    hbin = ck.build_harness(res)
    rng = gen.Rng(res.seed ^ 0xC06)
    if replay:
        r = json.load(open(replay))
        cf = gen.CaseFile()
        cf.add(r["kind"], r["body"], meta={"nvars": r.get("nvars", 10)})
    else:
        cf = prog_cases(res, rng, quick_n, thorough_n, with_queries)
        # a store with more than 2^16 nodes: 66000 variables, then operations that must find existing nodes again
        big = 66000
        body = ["var %d" % i for i in range(big)]
        body += ["and 0 1", "var 1", "and 0 1", "or 65999 65998", "not 65537", "var 65537", "and %d %d" % (big + 1, 0), "xor 2 65540", "restrict %d 2 1" % (big + 7), "or 65998 65999"]
        cf.add("PROG a1v1", body, prefix="L", meta={"nvars": big, "special": "large"})
        corpus = os.path.join(ck.ROOT, "corpus", "prog.json")
        if os.path.exists(corpus):
            for c in json.load(open(corpus)):
                cf.add(c["kind"], c["body"], prefix="k", meta={"nvars": c["nvars"]})
        # variable indices far apart (blocks that differ by a multiple of 2^8 / 2^16 / 2^31 / 2^32 / 2^40): the same programs
        # as above, the dense index i of a variable replaced by an increasing sparse one; judged after mapping them back
        for i in range(120 if res.tier == "quick" else 3000):
            nv = 4 + rng.below(5)
            kind, dense = gen.gen_prog(rng, nv, 8 + rng.below(40), queries=False)
            step = rng.pick([1 << 8, 1 << 16, 1 << 31, 1 << 32, 1 << 40])
            m_ = (nv + 1) // 2
            vmap = [(j // m_) * step + (j % m_) + rng.below(2) * 0 for j in range(nv)]
            body = []
            for l in dense:
                w = l.split()
                if w[0] == "var":
                    body.append("var %d" % vmap[int(w[1])])
                elif w[0] == "restrict":
                    body.append("restrict %s %d %s" % (w[1], vmap[int(w[2])], w[3]))
                else:
                    body.append(l)
            cf.add(kind, body, prefix="x", meta={"nvars": nv, "special": "sparseidx", "vmap": vmap, "dense": dense})
    impl, model = correspond(ck, res, cf, hbin, pid)
    def unmap(lines, vmap):
        inv = {v: k for k, v in enumerate(vmap)}
        out = []
        for l in lines or []:
            if l.startswith("table "):
                w = l.split(" ", 2)
                ents = []
                for e in w[2].split(";"):
                    v_, lo_, hi_ = e.split(":")
                    ents.append("%s:%s:%s" % (inv.get(int(v_), v_), lo_, hi_))
                l = w[0] + " " + w[1] + " " + ";".join(ents)
            out.append(l)
        return out
    exact_n = iso_n = 0
    nontriv = set()
    for cid, (kind, body, meta) in cf.meta.items():
        a, b = impl.get(cid), model.get(cid)
        if meta.get("special") == "large":
            # too many variables for truth tables: the table must be canonical, equal requests must return equal handles, and the model must agree exactly
            bad, exact, iso = None, (a == b), (a == b)
            tline = [l for l in (a or []) if l.startswith("table")]
            if a is None or any(l.startswith("PANIC") for l in a) or not tline:
                bad = "implementation panicked / printed no table on a store with %d variables" % meta["nvars"]
            else:
                nodes_ = [tuple(int(x) for x in e.split(":")) for e in tline[0].split(" ", 2)[2].split(";")]
                cb = oracle.check_table(nodes_)
                regs_ = {l.split()[0]: l.split()[1] for l in a if l.startswith("r")}
                big_ = meta["nvars"]
                same = [("r%d" % big_, "r%d" % (big_ + 2)), ("r1", "r%d" % (big_ + 1)), ("r65537", "r%d" % (big_ + 5)), ("r%d" % (big_ + 3), "r%d" % (big_ + 9))]
                if cb:
                    bad = "node table of a store with more than 2^16 nodes is not canonical: " + "; ".join(cb[:3])
                elif any(regs_.get(x) != regs_.get(y) for x, y in same):
                    bad = "on a store with more than 2^16 nodes equal requests return different handles: %s" % [(x, regs_.get(x), y, regs_.get(y)) for x, y in same if regs_.get(x) != regs_.get(y)][:2]
        elif meta.get("special") == "sparseidx":
            bad, exact, iso = judge_prog(cid, meta["dense"], meta["nvars"], unmap(a, meta["vmap"]) if a is not None else None, unmap(b, meta["vmap"]) if b is not None else None)
        else:
            bad, exact, iso = judge_prog(cid, body, meta["nvars"], a, b)
        exact_n += exact
        iso_n += iso
        if a:
            t = [l for l in a if l.startswith("table")]
            if t and int(t[0].split()[1]) > 2 + meta["nvars"] and any(l.startswith("restrict") for l in body):
                nontriv.add(hash(tuple(body)))
        if bad:
            res.violations.append({"key": "prog:" + ck.hashlib.sha1("\n".join(body).encode()).hexdigest()[:16], "what": bad,
                                   "kind": kind, "body": body, "nvars": meta["nvars"], "observed": a, "model": b})
        elif not iso:
            res.broken.append(("correspondence", "program %s differs from the model beyond handle renaming" % cid,
                               json.dumps({"body": body, "impl": a, "model": b})[:3000]))
    res.cov["evaluations"] = len(cf.meta)
    res.cov["distinct_nontrivial"] = len(nontriv)
    res.cov["rule"] = ("random straight-line programs over a register file (var/const/not/and/or/imp/iff/xor/restrict%s), operands biased "
                       "to recent results so that memo tables are hit; non-trivial = table grew beyond the variables and at least one restrict; "
                       "implementation output judged by truth tables (<= 10 variables) and the structural table check; compared with the extracted Coq model"
                       % (" + queries" if with_queries else ""))
    res.cov["samples"] = [cf.meta[c][1] for c in list(cf.meta)[:2]]
    res.extra["exact_table_matches"] = exact_n
    res.extra["iso_matches"] = iso_n
    return res


def check_C06(ck, res, replay):
    run_prog_check(ck, res, replay, "C06", False, 1500, 40000)
    return ck.finish(res, level_of(res.pid), ASSUME_COMMON + ["HashMap/HashSet = finite maps/sets; usize = unbounded N (no overflow on handles)"])


def check_C07(ck, res, replay):
    run_prog_check(ck, res, replay, "C07", False, 1500, 40000)
    return ck.finish(res, level_of(res.pid), ASSUME_COMMON + ["HashMap/HashSet = finite maps/sets; usize = unbounded N (no overflow on handles)"])


# ====================================================================== C18 nogood store
def ng_matches(g, a):
    """nogood g (tv string) is matched by total assignment a (tuple of bools)"""
    return all(c == "u" or (c == "T") == a[i] for i, c in enumerate(g))


def judge_ng(body, meta, a):
    """judges the implementation's answers of one NG history against the property text;
    returns list of (key, what)"""
    n = meta["n"]
    bad = []
    if a is None or any(l.startswith("PANIC") for l in a):
        return [("panic", "implementation panicked")]
    added = []
    empties = []
    qi = 0
    answers = {}
    for l in a:
        w = l.split(" ", 2)
        answers[w[0]] = l.split(" ", 1)[1]
    totals = list(itertools.product([False, True], repeat=n))
    for line in body:
        w = line.split()
        if w[0] == "add":
            if set(w[1]) == {"u"}:
                empties.append(w[1])     # the empty nogood is silently ignored by the code (known finding)
            else:
                added.append(w[1])
        elif w[0] in ("concl", "closure", "conclude", "dump", "single", "disj", "contra", "pairs"):
            ans = answers.get("q%d" % qi)
            qi += 1
            if ans is None:
                bad.append(("missing", "no answer for query %d" % (qi - 1)))
                continue
            if w[0] == "concl":
                I = w[1]
                ext = [t for t in totals if ng_matches(I, t) and not any(ng_matches(g, t) for g in added)]
                r = ans.split()[1]
                if r == "CONFLICT":
                    if ext:
                        bad.append(("spurious-conflict", "conflict reported for %s although %s avoids all added nogoods %s" % (I, "".join("T" if x else "F" for x in ext[0]), added)))
                else:
                    if any(all(c == "u" or c == I[i] for i, c in enumerate(g)) for g in added):
                        bad.append(("missed-conflict", "interpretation %s matches an added nogood but no conflict is reported" % I))
                    for i in range(n):
                        if I[i] != "u" and r[i] != I[i]:
                            bad.append(("changed", "conclusions %s change a decided position of %s" % (r, I)))
                        if I[i] == "u" and r[i] != "u":
                            if any(t[i] != (r[i] == "T") for t in ext):
                                bad.append(("unsound-conclusion", "conclusion %s at position %d of %s is not forced by %s" % (r[i], i, I, added)))
            elif w[0] == "closure":
                I = w[1]
                ext = [t for t in totals if ng_matches(I, t) and not any(ng_matches(g, t) for g in added)]
                if ans.startswith("closure Inconsistent"):
                    if ext:
                        bad.append(("spurious-conflict", "closure inconsistent for %s although an extension avoids all added nogoods %s" % (I, added)))
                elif ans.startswith("closure Update"):
                    r = ans.split()[2]
                    for i in range(n):
                        if I[i] != "u" and r[i] != I[i]:
                            bad.append(("changed", "closure changes a decided position"))
                        if I[i] == "u" and r[i] != "u" and any(t[i] != (r[i] == "T") for t in ext):
                            bad.append(("unsound-conclusion", "closure value at %d not forced" % i))
            elif w[0] == "single":
                exp = "".join(("T" if w[2] == "1" else "F") if i == int(w[1]) else "u" for i in range(n))
                if ans.split()[1] != exp:
                    bad.append(("single", "new_single_nogood(%s, %s) is %s" % (w[1], w[2], ans.split()[1])))
            elif w[0] == "contra":
                exp = any(a_ != "u" and b_ != "u" and a_ != b_ for a_, b_ in zip(w[1], w[2]))
                if ans.split()[1] != ("1" if exp else "0"):
                    bad.append(("contradicting", "is_contradicting(%s, %s) answers %s" % (w[1], w[2], ans.split()[1])))
            elif w[0] == "disj":
                if not any(a_ != "u" and b_ != "u" and a_ != b_ for a_, b_ in zip(w[1], w[2])):
                    exp = "".join(a_ if a_ != "u" else b_ for a_, b_ in zip(w[1], w[2]))
                    if ans.split()[1] != exp:
                        bad.append(("disjunction", "disjunction of the compatible assignments %s and %s is %s, their union is %s" % (w[1], w[2], ans.split()[1], exp)))
            elif w[0] == "pairs":
                ps = [] if w[1] == "-" else [(int(x.split(":")[0]), x.split(":")[1] == "1") for x in w[1].split(",")]
                d = {}
                clash = False
                for i_, v_ in ps:
                    if i_ in d and d[i_] != v_:
                        clash = True
                    d.setdefault(i_, v_)
                exp = "NONE" if (clash or not ps) else "".join(("T" if d[i] else "F") if i in d else "u" for i in range(n))
                if ans.split()[1] != exp:
                    bad.append(("pairs", "try_from_pair_iter(%s) gives %s, expected %s" % (w[1], ans.split()[1], exp)))
            elif w[0] == "dump":
                parts = ans.split(" ", 1)
                stored = [g for b in (parts[1].split("|") if len(parts) > 1 else []) for g in b.split(",") if g]
                ex_added = {t for t in totals if any(ng_matches(g, t) for g in added)}
                ex_store = {t for t in totals if any(ng_matches(g, t) for g in stored)}
                if empties and ex_added == ex_store:
                    bad.append(("empty-nogood-ignored", "an added empty nogood (which excludes every assignment) is not represented in the store"))
                if ex_added != ex_store:
                    d = sorted(ex_added ^ ex_store)[0]
                    bad.append(("forgotten", "mode %s: assignment %s is excluded by the added nogoods %s but not by the store %s (or vice versa)" % (
                        meta["mode"], "".join("T" if x else "F" for x in d), added, stored)))
    return bad


def check_C18(ck, res, replay):
    common_front(ck, res, "C18")
    hbin = ck.build_harness(res)
    rng = gen.Rng(res.seed ^ 0xC18)
    cf = gen.CaseFile()
    if replay:
        r = json.load(open(replay))
        cf.add("NG", r["body"], meta=r["meta"])
    else:
        corpus = os.path.join(ck.ROOT, "corpus", "ng.json")
        if os.path.exists(corpus):
            for c in json.load(open(corpus)):
                cf.add("NG", c["body"], prefix="k", meta=c["meta"])
        for _ in range(3000 if res.tier == "quick" else 100000):
            body, meta = gen.gen_ng_case(rng)
            cf.add("NG", body, meta=meta)
    impl, model = correspond(ck, res, cf, hbin, "C18")
    nontriv = set()
    mism = 0
    dist = {"none": 0, "equiv": 0, "subsume": 0}
    for cid, (kind, body, meta) in cf.meta.items():
        a, b = impl.get(cid), model.get(cid)
        dist[meta["mode"]] += 1
        if sum(1 for l in body if l.startswith("add")) >= 3:
            nontriv.add(tuple(body))
        for key, what in judge_ng(body, meta, a):
            res.violations.append({"key": ("ng:" + key + ":" + meta["mode"]) if key == "forgotten" else "ng:" + key, "what": what,
                                   "body": body, "meta": meta, "observed": a, "model": b})
        if a != b:
            mism += 1
            if mism <= 5:
                res.broken.append(("correspondence", "nogood history %s: implementation and model differ" % cid,
                                   json.dumps({"body": body, "impl": a, "model": b})[:2000]))
    res.cov["evaluations"] = len(cf.meta)
    res.cov["distinct_nontrivial"] = len(nontriv)
    res.cov["rule"] = ("random add sequences over 2..6 positions (duplicates, supersets, subsets and one-literal flips of earlier nogoods "
                       "over-represented) under the three modes, interleaved with conclusions / closure / conclude queries on random partial "
                       "interpretations and a final dump; non-trivial = at least 3 adds; judged by enumeration of all total assignments")
    res.cov["samples"] = [cf.meta[c][1] for c in list(cf.meta)[:2]]
    res.extra["mode_distribution"] = dist
    res.extra["model_mismatches"] = mism
    return ck.finish(res, level_of(res.pid), ASSUME_COMMON + ["roaring bitmaps = finite sets of positions"])


# ====================================================================== C08 parser
def doc_cases(res, rng, nvalid, nbad):
    cf = gen.CaseFile()
    for i in range(nvalid):
        style = rng.below(3)
        text, n = gen.gen_adf(rng, nmax=6, depth=4, style=style,
                              layout={"shuffle": rng.chance(1, 2), "ws": rng.chance(2, 3)}, repeat_ac=True)
        cf.add("PARSE", ["text " + gen.hexs(text)], meta={"text": text, "valid": True})
    for i in range(nbad):
        style = rng.below(3)
        text, n = gen.gen_adf(rng, nmax=4, depth=3, style=style, layout={"shuffle": rng.chance(1, 2), "ws": rng.chance(1, 3)})
        m = gen.mutate(rng, text)
        if rng.chance(1, 4):
            m = gen.mutate(rng, m)
        cf.add("PARSE", ["text " + gen.hexs(m)], meta={"text": m, "valid": None})
    for t in ["", " ", "s(a)", "s(a).", " s(a).", "s(a). ", "s(a).s(a).", "ac(a,b).", "s(a).ac(a,c(v)", "s(a).ac(a,and(a)).",
              "s(a).ac(a,neg(a,a)).", "s(a).ac(a,c(x)).", "s(\"a\").", "s(\"\").", "s(\"a).", "s(a)..", "s(a).x", "s(a).s", "s(a)\n.",
              "s(a).ac(a,and(b,c))).", "s(a).ac(a,and (b,c)).", "s(a).ac(a, and(b,c)).", "s(a).ac(a,and(b,c) ).", "s(a).ac(a ,b).", "s(a_b)."]:
        cf.add("PARSE", ["text " + gen.hexs(t)], prefix="f", meta={"text": t, "valid": None})
    return cf


def py_grammar(text):
    """independent recogniser of the documented grammar: returns (names, [(name, formula debug string)]) or None"""
    try:
        if text == "" or text[0] in " \t\r\n":
            return None
        names, conds = [], []
        pos = 0
        n = len(text)
        def skip(p):
            while p < n and text[p] in " \t\r\n":
                p += 1
            return p
        def label(p):
            if text[p] == '"':
                e = text.index('"', p + 1)
                return text[p + 1:e], e + 1
            q = p
            while q < n and text[q].isascii() and text[q].isalnum():
                q += 1
            if q == p:
                raise ValueError
            return text[p:q], q
        def dbg(f):
            k = f[0]
            if k == "top": return "Const(T)"
            if k == "bot": return "Const(B)"
            if k == "atom": return f[1]
            if k == "neg": return "not(%s)" % dbg(f[1])
            return "%s(%s,%s)" % (k, dbg(f[1]), dbg(f[2]))
        while pos < n:
            if text.startswith("s(", pos):
                nm, p = label(pos + 2)
                if text[p:p + 2] != ").":
                    raise ValueError
                if nm not in names:
                    names.append(nm)
                pos = skip(p + 2)
            elif text.startswith("ac(", pos):
                nm, p = label(pos + 3)
                p = skip(p)
                if text[p] != ",":
                    raise ValueError
                p = skip(p + 1)
                f, p = oracle.parse_formula(text, p)
                if text[p:p + 2] != ").":
                    raise ValueError
                conds.append((nm, dbg(f)))
                pos = skip(p + 2)
            else:
                raise ValueError
        if not names and not conds:
            return None
        return names, conds
    except (ValueError, IndexError):
        return None


def check_C08(ck, res, replay):
    common_front(ck, res, "C08")
    hbin = ck.build_harness(res)
    rng = gen.Rng(res.seed ^ 0xC08)
    if replay:
        r = json.load(open(replay))
        cf = gen.CaseFile()
        cf.add("PARSE", ["text " + gen.hexs(r["text"])], meta={"text": r["text"], "valid": None})
    else:
        cf = doc_cases(res, rng, 2500 if res.tier == "quick" else 60000, 5000 if res.tier == "quick" else 150000)
    impl, model = correspond(ck, res, cf, hbin, "C08")
    nontriv = set()
    acc = rej = mism = 0
    for cid, (kind, body, meta) in cf.meta.items():
        a, b = impl.get(cid), model.get(cid)
        text = meta["text"]
        g = py_grammar(text)
        if a is None or not a or not a[0].startswith("parse"):
            res.violations.append({"key": "parse:panic", "what": "parser panicked or printed nothing", "text": text, "observed": a})
            continue
        ok = a[0].split()[1] == "OK"
        acc += ok
        rej += (not ok)
        if len(text) > 12:
            nontriv.add(text)
        if g is None and ok:
            res.violations.append({"key": "parse:accepts-malformed", "what": "text outside the documented grammar is accepted", "text": text, "observed": a})
        elif g is not None and not ok:
            res.violations.append({"key": "parse:rejects-valid", "what": "text of the documented grammar is rejected", "text": text, "observed": a})
        elif g is not None:
            names = [bytes.fromhex(x[1:]).decode("utf8", "replace") for x in a[0].split("names=")[1].split(" ")[0].split(",") if x]
            acs = a[0].split("acs=")[1]
            got = [tuple(bytes.fromhex(y[1:]).decode("utf8", "replace") for y in x.split(":")) for x in acs.split(";") if x]
            if names != g[0] or got != [(nm, f) for nm, f in g[1]]:
                res.violations.append({"key": "parse:wrong-content", "what": "accepted text yields other statements/formulas than written: %r vs %r" % ((names, got), g),
                                       "text": text, "observed": a})
        if a != b:
            mism += 1
            if mism <= 5:
                res.broken.append(("correspondence", "parser model and implementation differ on %r" % text, json.dumps({"impl": a, "model": b})[:1500]))
    # "yields, for each statement, a formula denoting the Boolean function written in the file": the diagram handles of
    # Adf::from_parser on documents with keyword-like and quoted labels, judged by truth tables of the written formulas
    compiled = 0
    if hbin and not replay:
        cf2 = gen.CaseFile()
        for _ in range(250 if res.tier == "quick" else 6000):
            text, n = gen.gen_adf(rng, nmax=6, depth=4, style=rng.below(3), layout={"shuffle": rng.chance(1, 3), "ws": rng.chance(1, 3)})
            if well_declared(text):      # (whitespace inserted inside a quoted label makes another label)
                # one document in three is handed to the parser object in two pieces (parse() called twice), cut behind a fact
                cuts = [m_.end() for m_ in re.finditer(r"\.\s*(?=s\(|ac\()", text)]
                two = None
                if cuts and rng.chance(1, 3):
                    c_ = rng.pick(cuts)
                    t1, t2 = text[:c_], text[c_:]
                    if well_declared(t1) and py_grammar(t1) is not None and py_grammar(t2) is not None and py_grammar(text) is not None:
                        two = (t1, t2)
                if two:
                    cf2.add("ADF", ["text " + gen.hexs(two[0]), "sort none", "backend native", "q reparse " + gen.hexs(two[1]), "q acs", "q table"], meta={"text": text, "pieces": two})
                else:
                    cf2.add("ADF", ["text " + gen.hexs(text), "sort none", "backend native", "q acs", "q table"], meta={"text": text})
        impl2, model2 = correspond(ck, res, cf2, hbin, "C08.compile")
        for cid, (kind, body, meta) in cf2.meta.items():
            a, b = impl2.get(cid), model2.get(cid)
            if a is None or not a or not a[0].startswith("parse OK") or any(l.startswith("PANIC") or l == "build PANIC" for l in a):
                res.violations.append({"key": "compile:no-diagram", "what": "a document of the documented format is not compiled: %s" % (a[:2] if a else a), "text": meta["text"]})
                continue
            t = [l for l in a if " table " in l]
            acl = [l for l in a if " acs " in l]
            names_impl = [bytes.fromhex(x[1:]).decode("utf8", "replace") for x in a[0].split()[2].split(",")] if len(a[0].split()) > 2 else []
            rp = [l for l in a if " reparse " in l]
            if rp:
                w_ = rp[0].split()
                if w_[2] != "OK" or len(w_) < 4 or not w_[3].startswith("names="):
                    res.violations.append({"key": "compile:second-parse", "what": "the second piece of a document is rejected or cannot be compiled by the parser that read the first piece: %s" % rp[0], "text": meta["text"], "pieces": meta.get("pieces")})
                    continue
                names_impl = [bytes.fromhex(x[1:]).decode("utf8", "replace") for x in w_[3][6:].split(",") if x]
            if t and acl and names_impl:
                names, conds = oracle.parse_adf_text(meta["text"])
                tts, _, _ = oracle.truth_tables(oracle.parse_table(t[0].split(" table ", 1)[1]), len(names_impl))
                acs = [int(x) for x in acl[0].split(" acs ")[1].split(",")]
                for i, nm in enumerate(names_impl):
                    if acs[i] >= len(tts) or tts[acs[i]] != formula_tt(conds.get(nm, ("bot",)), names_impl):
                        res.violations.append({"key": "compile:wrong-function", "what": "the diagram stored for statement %r does not denote the formula written in the file" % nm, "text": meta["text"], "observed": a[:4]})
                        break
                compiled += 1
            if a != b:
                mism += 1
                if mism <= 5:
                    res.broken.append(("correspondence", "compiled document: model and implementation differ on %r" % meta["text"][:200], json.dumps({"impl": a, "model": b})[:1500]))
    res.extra["documents_compiled_and_judged"] = compiled
    # the command line must not answer for text the parser rejects (every library mode has its own error path)
    cli_n = 0
    if not replay:
        binary = build_cli(ck, res)
        if binary:
            bad_texts = [meta["text"] for cid, (kind, body, meta) in cf.meta.items() if py_grammar(meta["text"]) is None and 3 < len(meta["text"]) < 400 and "\x00" not in meta["text"]]
            bad_texts = rng.shuffle(bad_texts)[: 40 if res.tier == "quick" else 600]
            cases = {}
            for i, t in enumerate(bad_texts):
                for mode in ("hybrid", "biodivine", "naive"):
                    cases["m%d%s" % (i, mode[0])] = {"text": t, "mode": mode, "sort": rng.pick(["none", "lexi"]), "flags": [rng.pick(["grd", "com", "stm"])]}
            outs = run_cli_cases(ck, binary, cases)
            for cid, c in cases.items():
                o_ = outs.get(cid, (None, [], ""))
                code, lines = o_[0], o_[1]
                cli_n += 1
                answered = [l for l in lines if re.search(r"\b[TFu]\(", l)]
                if code == 0 or answered:
                    res.violations.append({"key": "cli:answers-malformed:" + c["mode"], "what": "adf-bdd --lib %s answers (exit %s, %d interpretation lines) for text the documented grammar excludes" % (c["mode"], code, len(answered)),
                                           "text": c["text"], "mode": c["mode"], "flags": c["flags"], "observed": lines[:5]})
    res.extra["cli_malformed_runs"] = cli_n
    res.cov["evaluations"] = len(cf.meta)
    res.cov["distinct_nontrivial"] = len(nontriv)
    res.cov["rule"] = ("valid stream: rendered random documents (fact order shuffled, layout toggled, plain / keyword-like / quoted labels); malformed stream: "
                       "one or two byte-level mutations (delete, insert, replace, truncate, duplicate, leading blank, trailing junk, swap) + a fixed list of "
                       "edge texts; non-trivial = longer than 12 bytes, distinct; judged by an independent recogniser of the documented grammar")
    res.cov["samples"] = [cf.meta[c][2]["text"] for c in list(cf.meta)[:3]] + [cf.meta[c][2]["text"] for c in list(cf.meta)[-30:-27]]
    res.extra["accepted"] = acc
    res.extra["rejected"] = rej
    res.extra["model_mismatches"] = mism
    return ck.finish(res, level_of(res.pid), ASSUME_COMMON + ["nom 7.1 primitives (tag, alt, many1, all_consuming, alphanumeric1 = ASCII, take_until, multispace0) behave as transcribed"])


# ====================================================================== C13 counts, depth, supports, cubes
def table_paths(nodes, h, memo):
    """(paths to bot, paths to top, depth) of handle h"""
    if h in memo:
        return memo[h]
    if h == 0:
        r = (1, 0, 0)
    elif h == 1:
        r = (0, 1, 0)
    else:
        v, lo, hi = nodes[h]
        a, b = table_paths(nodes, lo, memo), table_paths(nodes, hi, memo)
        r = (a[0] + b[0], a[1] + b[1], max(a[2], b[2]) + 1)
    memo[h] = r
    return r


def tt_support(tt, nvars):
    return [j for j in range(nvars) if oracle.tt_cofactor(tt, j, True, nvars) != oracle.tt_cofactor(tt, j, False, nvars)]


def judge_queries(body, nvars, a):
    """judges the answers to the q-lines of a PROG case from the implementation's own table"""
    bad = []
    regs, table, tts = tt_of_regs(a, nvars)
    if table is None:
        return [("no-table", "no table printed")]
    size = 1 << nvars
    memo = {}
    answers = {}
    for l in a:
        w = l.split(" ", 1)
        if w[0].startswith("q"):
            answers[w[0]] = w[1]
    qi = 0
    for line in body:
        w = line.split()
        if w[0] != "q":
            continue
        ans = answers.get("q%d" % qi)
        qi += 1
        if ans is None:
            bad.append(("missing", "no answer to %s" % line))
            continue
        aw = ans.split()
        if w[1] in ("paths", "models", "depth", "deps", "cubes"):
            h = regs[int(w[2])]
            tt = tts[h]
            ones = bin(tt).count("1")
        if w[1] == "reimport":
            if "nodes_equal=1" not in ans:
                bad.append(("reimport", "re-importing the exported store (%s) does not reproduce the node table" % w[2]))
        elif w[1] == "paths":
            pb, pt, d = table_paths(table, h, memo)
            if (int(aw[1]), int(aw[2])) != (pb, pt):
                bad.append(("paths", "paths of handle %d: got %s/%s, the table has %d/%d" % (h, aw[1], aw[2], pb, pt)))
        elif w[1] == "models":
            cm, m = int(aw[1]), int(aw[2])
            if cm * ones != m * (size - ones) or cm + m == 0:
                bad.append(("models", "model counts of handle %d: got cm=%d m=%d, true ratio %d:%d" % (h, cm, m, size - ones, ones)))
        elif w[1] == "depth":
            if int(aw[1]) != table_paths(table, h, memo)[2]:
                bad.append(("depth", "depth of handle %d: got %s, longest path %d" % (h, aw[1], table_paths(table, h, memo)[2])))
        elif w[1] == "deps":
            got = [int(x) for x in aw[1].split(",")] if len(aw) > 1 and aw[1] else []
            if got != tt_support(tt, nvars):
                bad.append(("deps", "dependencies of handle %d: got %s, the function depends on %s" % (h, got, tt_support(tt, nvars))))
        elif w[1] == "cubes":
            goal, gv = w[3] == "1", int(w[4])
            cubes = []
            if len(aw) > 1:
                for c in aw[1].split(";"):
                    n_, p_ = c.split("|")
                    cubes.append(([int(x) for x in n_.split(",") if x], [int(x) for x in p_.split(",") if x]))
            cover = [0] * size
            for (ng_, ps_) in cubes:
                for x in range(size):
                    if all(not (x >> j & 1) for j in ng_) and all(x >> j & 1 for j in ps_):
                        cover[x] += 1
            if any(c > 1 for c in cover):
                bad.append(("cubes-overlap", "cubes of handle %d towards %s overlap" % (h, goal)))
            if any((gv in ng_ and goal) or (gv in ps_ and not goal) for (ng_, ps_) in cubes):
                bad.append(("cubes-outside-goal", "a cube of handle %d towards %s fixes the goal variable %d to the other value: it covers no (counter-)model where the goal variable has the goal value" % (h, goal, gv)))
            for x in range(size):
                if bool(x >> gv & 1) == goal:
                    if (bool(tt >> x & 1) == goal) != (cover[x] > 0):
                        key = "cubes-terminal-root" if h <= 1 else "cubes-cover"
                        bad.append((key, "cubes of handle %d towards %s (goal variable %d) do not cover exactly the %s: assignment %d" % (
                            h, goal, gv, "models" if goal else "counter-models", x)))
                        break
        elif w[1] == "pimp":
            v = int(w[2])
            exp = sum(1 for r in w[3:] if v in tt_support(tts[regs[int(r)]], nvars))
            if int(aw[1]) != exp:
                bad.append(("pimp", "passive impact of %d: got %s expected %d" % (v, aw[1], exp)))
        elif w[1] == "aimp":
            v = int(w[2])
            l = w[3:]
            sup = tt_support(tts[regs[int(l[v])]], nvars)
            exp = sum(1 for idx in range(len(l)) if idx in sup)
            if int(aw[1]) != exp:
                bad.append(("aimp", "active impact of %d: got %s expected %d" % (v, aw[1], exp)))
    return bad


def judge_queries_wide(body, nvars, a):
    """judge for diagrams over too many variables for truth tables: everything is recomputed from the implementation's own
    node table with exact integers (a reduced ordered diagram depends on exactly the variables of its reachable nodes;
    the fraction of satisfying assignments of a node is the mean of the fractions of its children)"""
    from fractions import Fraction
    bad = []
    regs, table = {}, None
    for l in a:
        w = l.split(" ", 1)
        if w[0].startswith("r") and w[0][1:].isdigit():
            regs[int(w[0][1:])] = int(w[1])
        elif w[0] == "table":
            table = oracle.parse_table(w[1])
    if table is None:
        return [("no-table", "no table printed")]
    frac = {0: Fraction(0), 1: Fraction(1)}
    sup = {0: frozenset(), 1: frozenset()}
    def walk(h):
        if h not in frac:
            v, lo, hi = table[h]
            walk(lo); walk(hi)
            frac[h] = (frac[lo] + frac[hi]) / 2
            sup[h] = sup[lo] | sup[hi] | {v}
    memo = {}
    answers = {}
    for l in a:
        w = l.split(" ", 1)
        if w[0].startswith("q"):
            answers[w[0]] = w[1]
    qi = 0
    for line in body:
        w = line.split()
        if w[0] != "q":
            continue
        ans = answers.get("q%d" % qi)
        qi += 1
        if ans is None:
            bad.append(("missing", "no answer to %s" % line))
            continue
        aw = ans.split()
        if w[1] == "reimport":
            if "nodes_equal=1" not in ans:
                bad.append(("reimport", "re-importing the exported store (%s) does not reproduce the node table" % w[2]))
            continue
        h = regs[int(w[2])]
        walk(h)
        if w[1] == "paths":
            pb, pt, d = table_paths(table, h, memo)
            if (int(aw[1]), int(aw[2])) != (pb, pt):
                bad.append(("paths", "paths of handle %d: got %s/%s, the table has %d/%d" % (h, aw[1], aw[2], pb, pt)))
        elif w[1] == "models":
            cm, m = int(aw[1]), int(aw[2])
            if cm + m == 0 or Fraction(m, cm + m) != frac[h]:
                bad.append(("models", "model counts of handle %d: got cm=%d m=%d, the fraction of satisfying assignments is %s" % (h, cm, m, frac[h])))
        elif w[1] == "depth":
            if int(aw[1]) != table_paths(table, h, memo)[2]:
                bad.append(("depth", "depth of handle %d: got %s, longest path %d" % (h, aw[1], table_paths(table, h, memo)[2])))
        elif w[1] == "deps":
            got = [int(x) for x in aw[1].split(",")] if len(aw) > 1 and aw[1] else []
            if got != sorted(sup[h]):
                bad.append(("deps", "dependencies of handle %d: got %s, the diagram tests %s" % (h, got, sorted(sup[h]))))
    return bad


def leaf_case(cf):
    body = []
    vals = [0, 1, 2, 3, 7, 100]
    for cm in vals:
        for m in vals:
            body.append("more %d %d" % (cm, m))
            body.append("min %d %d" % (cm, m))
    for a in [0, 1, 2, 5]:
        body.append("istv %d" % a)
        for b in [0, 1, 2, 5]:
            body.append("cmpinf %d %d" % (a, b))
            body.append("noinf %d %d" % (a, b))
    for v in [0, 5, oracle.VBOT - 1, oracle.VBOT, oracle.VTOP]:
        body.append("isconst %d" % v)
    return cf.add("LEAF", body, prefix="leaf")


def judge_leaf(body, a):
    bad = []
    if a is None:
        return [("leaf-panic", "leaf predicates panicked")]
    for i, line in enumerate(body):
        w = line.split()
        got = a[i].split()[-1] if i < len(a) else None
        x = [int(t) for t in w[1:]]
        tv = lambda h: h <= 1
        if w[0] == "more":
            exp = "1" if x[1] >= x[0] else "0"
        elif w[0] == "min":
            exp = str(min(x))
        elif w[0] == "istv":
            exp = "1" if tv(x[0]) else "0"
        elif w[0] == "cmpinf":
            exp = "1" if (tv(x[0]) == tv(x[1]) and (x[0] == 1) == (x[1] == 1)) else "0"
        elif w[0] == "noinf":
            exp = "1" if ((tv(x[0]) == tv(x[1]) and (x[0] == 1) == (x[1] == 1)) or not tv(x[0])) else "0"
        else:
            exp = "1" if x[0] >= oracle.VBOT else "0"
        if got != exp:
            bad.append(("leaf:" + w[0], "%s returns %s, the property prescribes %s" % (line, got, exp)))
    return bad


def check_C13(ck, res, replay):
    common_front(ck, res, "C13", ties=["TieLeaf", "TieMoreModels", "TieFlagDepth"])
    hbin = ck.build_harness(res)
    # the memoised procedures are documented to work without ad-hoc path counting and with ad-hoc model counting:
    # the same programs (with memoised queries) also run on those two builds
    variants = build_variants(ck, res, [s_ for s_ in FEATURE_SETS if s_[0] in ("a0v1f1", "a2v0f0")])
    rng = gen.Rng(res.seed ^ 0xC13)
    cf = gen.CaseFile()
    leaf_id = None
    if replay:
        r = json.load(open(replay))
        cf.add(r["kind"], r["body"], meta={"nvars": r.get("nvars", 8)})
    else:
        leaf_id = leaf_case(cf)
        for c in (json.load(open(os.path.join(ck.ROOT, "corpus", "counts.json"))) if os.path.exists(os.path.join(ck.ROOT, "corpus", "counts.json")) else []):
            cf.add(c["kind"], c["body"], prefix="k", meta={"nvars": c["nvars"], "special": c.get("special")})
        for i in range(1200 if res.tier == "quick" else 40000):
            nv = 2 + rng.below(6)
            kind, body = gen.gen_prog(rng, nv, 8 + rng.below(30), queries=True)
            # more queries at the end, on every kind
            nreg = sum(1 for l in body if not l.startswith("q"))
            for _ in range(6):
                a = rng.below(nreg)
                q = rng.pick(["paths %d 1" % a, "models %d 0" % a, "depth %d" % a, "deps %d" % a,
                              "cubes %d %d %d" % (a, rng.below(2), rng.below(nv)), "cubes %d %d %d" % (a, rng.below(2), rng.below(nv))])
                body.append("q " + q)
            cf.add(kind, body, meta={"nvars": nv})
        # sparse diagrams (children with incomparable supports): dependency sets and impacts of every top
        for i in range(200 if res.tier == "quick" else 5000):
            nv = 4 + rng.below(4)
            kind, body = gen.gen_prog_sparse(rng, nv, queries=True)
            cf.add(kind, body, prefix="s", meta={"nvars": nv})
        # wide diagrams (21..62 variables, children of very different depth): counts judged from the node table with exact integers
        for i in range(60 if res.tier == "quick" else 1500):
            nv = 21 + rng.below(42)
            kind, body = gen.gen_prog_wide(rng, nv)
            cf.add(kind, body, prefix="w", meta={"nvars": nv, "special": "wide"})
    impl, model = correspond(ck, res, cf, hbin, "C13")
    nontriv = set()
    mism = 0
    for cid, (kind, body, meta) in cf.meta.items():
        a, b = impl.get(cid), model.get(cid)
        if kind == "LEAF":
            for key, what in judge_leaf(body, a):
                res.violations.append({"key": key, "what": what, "kind": kind, "body": body, "observed": a})
        else:
            if meta.get("special") == "deep":
                # too many variables for truth tables: the counts must at least be produced without a panic
                if a is None or any("PANIC" in l for l in a):
                    res.violations.append({"key": "models:overflow-depth64", "what": "model counting of a diagram of depth >= 64 panics (usize overflow)",
                                           "kind": kind, "body": body, "nvars": meta["nvars"], "observed": (a or [])[-3:]})
                continue
            if a is None or any(l.startswith("PANIC") for l in a):
                res.violations.append({"key": "prog:panic", "what": "implementation panicked", "kind": kind, "body": body, "nvars": meta["nvars"], "observed": a})
                continue
            for key, what in (judge_queries_wide if meta.get("special") == "wide" else judge_queries)(body, meta["nvars"], a):
                res.violations.append({"key": "query:" + key + (":wide" if meta.get("special") == "wide" else ""), "what": what, "kind": kind, "body": body, "nvars": meta["nvars"], "observed": a})
            if sum(1 for l in body if l.startswith("q")) >= 4:
                nontriv.add(tuple(body))
        if a != b:
            mism += 1
            if mism <= 5:
                res.broken.append(("correspondence", "case %s: implementation and model differ" % cid, json.dumps({"body": body, "impl": a, "model": b})[:2500]))
    # other feature sets: memoised model counts and paths must be exact there too
    extra_eval = 0
    if not replay:
        for tag, cfg in (("a0v1f1", "a0v1"), ("a2v0f0", "a2v0")):
            cf2 = gen.CaseFile()
            rng2 = gen.Rng(res.seed ^ 0x13C ^ hash(tag) % 1000)
            for i in range(300 if res.tier == "quick" else 8000):
                nv = 2 + rng2.below(6)
                kind, body = gen.gen_prog(rng2, nv, 8 + rng2.below(25), queries=False, cfg=cfg)
                nreg = sum(1 for l in body if not l.startswith("q"))
                for _ in range(8):
                    a_ = rng2.below(nreg)
                    body.append("q " + rng2.pick(["paths %d 1" % a_, "paths %d 0" % a_, "models %d 1" % a_, "models %d 0" % a_, "depth %d" % a_, "deps %d" % a_]))
                cf2.add(kind, body, meta={"nvars": nv})
            for i in range(30 if res.tier == "quick" else 600):
                nv = 21 + rng2.below(42)
                kind, body = gen.gen_prog_wide(rng2, nv, cfg=cfg, memo=True)
                cf2.add(kind, body, prefix="w", meta={"nvars": nv, "special": "wide"})
            impl2, model2 = correspond(ck, res, cf2, variants.get(tag), "C13." + tag)
            extra_eval += len(cf2.meta)
            for cid, (kind, body, meta) in cf2.meta.items():
                a, b = impl2.get(cid), model2.get(cid)
                if a is None or any(l.startswith("PANIC") for l in a):
                    res.violations.append({"key": "prog:panic:" + tag, "what": "implementation panicked (feature set %s)" % tag, "kind": kind, "body": body, "nvars": meta["nvars"], "observed": a})
                    continue
                for key, what in (judge_queries_wide if meta.get("special") == "wide" else judge_queries)(body, meta["nvars"], a):
                    res.violations.append({"key": "query:%s:%s" % (key, tag), "what": what + " (feature set %s)" % tag, "kind": kind, "body": body, "nvars": meta["nvars"], "observed": a})
                if a != b:
                    mism += 1
                    if mism <= 5:
                        res.broken.append(("correspondence", "feature set %s case %s: implementation and model differ" % (tag, cid), json.dumps({"body": body, "impl": a, "model": b})[:2500]))
    # the counting interface of an ADF object: formulacounts of the conditions as written, facet_count of the grounded
    # interpretation (decided statements have no counter-model / no model), path counts and depths of the conditions
    adf_counts = 0
    if hbin and not replay:
        cf3 = gen.CaseFile()
        rng3 = gen.Rng(res.seed ^ 0xC13A)
        for text, origin in adf_case_stream(res, rng3, 150 if res.tier == "quick" else 4000, 7, with_tt2=False):
            qs = [["counts", "0"], ["facets"], ["paths"], ["depths"], ["grounded"], ["facets"], ["counts", "0"], ["table"]]
            cf3.add("ADF", ["text " + gen.hexs(text), "sort none", "backend native"] + ["q " + " ".join(q) for q in qs], prefix="f", meta={"text": text, "queries": qs})
        impl3, model3 = correspond(ck, res, cf3, hbin, "C13.adf")
        for cid, (kind, body, meta) in cf3.meta.items():
            a, b = impl3.get(cid), model3.get(cid)
            bad3, info3 = judge_adf(meta["text"], a, meta["queries"], "none", "native")
            for key, what in bad3:
                res.violations.append({"key": "adf:" + key, "what": what, "body": body, "meta": meta, "observed": a, "model": b})
            adf_counts += 1
            if a != b:
                mism += 1
                if mism <= 5:
                    res.broken.append(("correspondence", "ADF case %s (counts / facets): implementation and model differ" % cid, json.dumps({"text": meta["text"], "impl": a, "model": b})[:2500]))
    res.extra["adf_objects_counted"] = adf_counts
    extra_eval += adf_counts
    # the command-line observation point: adf-bdd --counter nai prints the (counter-model, model) counts of every
    # acceptance condition as written; hybrid and naive mode, with and without sorting
    cli_counts = 0
    if not replay:
        binary = build_cli(ck, res)
        if binary:
            rngc = gen.Rng(res.seed ^ 0xC13C)
            cases = {}
            for b_ in range(40 if res.tier == "quick" else 600):
                text, n = gen.gen_adf(rngc, nmax=6, depth=3, style=0, layout={"shuffle": rngc.chance(1, 3)}, degenerate=False)
                for mode in ("hybrid", "naive"):
                    for sort in ("none", "lexi"):
                        cases["k%d.%s.%s" % (b_, mode, sort)] = {"text": text, "mode": mode, "sort": sort, "flags": [], "counter": "nai"}
            outs = run_cli_cases(ck, binary, cases)
            for cid, c in cases.items():
                o_ = outs.get(cid)
                cli_counts += 1
                names, conds = oracle.parse_adf_text(c["text"])
                if c["sort"] == "lexi":
                    names = sorted(names, key=lambda s_: s_.encode())
                got = re.findall(r"ModelCounts \{ cmodels: (\d+), models: (\d+) \}", " ".join(o_[1])) if o_ and o_[0] == 0 else None
                if got is None or len(got) != len(names):
                    res.violations.append({"key": "counter:no-answer", "what": "adf-bdd --lib %s --counter nai prints %s counts for %d statements (exit %s)" % (c["mode"], None if got is None else len(got), len(names), o_ and o_[0]),
                                           "text": c["text"], "meta": {k_: c[k_] for k_ in ("mode", "sort")}})
                    continue
                size = 1 << len(names)
                for (cm, m), nm in zip(got, names):
                    ones = bin(formula_tt(conds.get(nm, ("bot",)), names)).count("1")
                    cm, m = int(cm), int(m)
                    if cm + m == 0 or cm * ones != m * (size - ones):
                        res.violations.append({"key": "counter:wrong-ratio", "what": "adf-bdd --lib %s --counter nai: statement %s has counts (%d, %d) but its condition has %d counter-models and %d models among %d assignments" % (
                            c["mode"], nm, cm, m, size - ones, ones, size), "text": c["text"], "meta": {k_: c[k_] for k_ in ("mode", "sort")}, "observed": o_[1][:2]})
                        break
    res.extra["cli_counter_runs"] = cli_counts
    res.extra["other_feature_set_cases"] = extra_eval
    res.cov["evaluations"] = len(cf.meta) + extra_eval
    res.cov["distinct_nontrivial"] = len(nontriv)
    res.cov["rule"] = ("(default build, and with memoised queries the builds a0v1f1 = no ad-hoc counting and a2v0f0 = ad-hoc models) "
                       "random programs (2..7 variables) with interleaved and trailing queries paths / models(naive) / depth / deps / cubes / impacts; "
                       "a grid of arguments for the leaf predicates; non-trivial = at least 4 queries, distinct; answers judged from the implementation's own "
                       "table by path enumeration and truth tables, and compared with the extracted Coq model")
    res.cov["samples"] = [cf.meta[c][1] for c in list(cf.meta)[-2:]]
    res.extra["model_mismatches"] = mism
    return ck.finish(res, level_of(res.pid), ASSUME_COMMON + ["usize arithmetic = unbounded N below depth 64 (guard stated in the theorems)"])


# ====================================================================== ADF semantics (C01 .. C05)
BIO_FORBIDDEN = "!&|^=<>()?:"


def bio_unsafe(text):
    """does the text declare a (quoted) label with a character that biodivine-lib-bdd rejects in variable names?
    (recorded finding of C15: the biodivine and hybrid modes abort on such labels; library-level checks keep them native)"""
    return any(any(ch in BIO_FORBIDDEN for ch in lab) for lab in re.findall(r'"([^"]*)"', text))


def adf_case_stream(res, rng, n_random, nmax, with_tt2=True, tt3=0, style_max=1):
    """yields ADF texts: all truth-table ADFs with n <= 2, random truth-table ADFs with n = 3,
    structured random ADFs, degenerate shapes"""
    if with_tt2:
        for n in (1, 2):
            for t in gen.all_tt_adfs(n):
                yield t, "tt%d" % n
    for _ in range(tt3):
        yield gen.tt_adf(rng, 3), "tt3"
    for _ in range(n_random):
        text, n = gen.gen_adf(rng, nmax=nmax, depth=4, style=rng.below(style_max + 1), layout={"shuffle": rng.chance(1, 3)})
        yield text, "rand"
    for text in ["s(a).ac(a,a).", "s(a).ac(a,neg(a)).", "s(a).s(b).s(c).ac(a,c).ac(b,and(b,a)).ac(c,c).",
                 "s(a).s(b).s(c).ac(a,a).ac(b,b).ac(c,c).", "s(a).s(b).ac(a,neg(b)).ac(b,neg(a)).", "s(a).s(b).",
                 "s(a).ac(a,c(v)).s(b).ac(b,a).s(c).ac(c,b).s(d).ac(d,c).s(e).ac(e,d).",
                 # quoted labels that look like syntax: different conditions that PRINT alike
                 's(a).s(b).s("and(a,b)").s(x).s(y).ac(a,a).ac(b,b).ac("and(a,b)",c(f)).ac(x,"and(a,b)").ac(y,and(a,b)).',
                 's("a,b").s(c).s(a).s("b,c").s(x).s(y).ac("a,b",c(v)).ac(c,c(v)).ac(a,c(v)).ac("b,c",c(f)).ac(x,and("a,b",c)).ac(y,and(a,"b,c")).',
                 's("Const(T)").s(p).s(q).ac("Const(T)",c(f)).ac(p,"Const(T)").ac(q,c(v)).',
                 's("not(a)").s(a).s(p).s(q).ac(a,c(f)).ac("not(a)",c(f)).ac(p,"not(a)").ac(q,neg(a)).']:
        yield text, "fixed"


def judge_dict(a):
    """the parser's dictionary and the variable container agree with the reported name list (both directions, size,
    no entry for a label that does not occur); also after the parser has been sorted again"""
    bad = []
    if not a or not a[0].startswith("parse OK"):
        return bad
    n = len(a[0].split()[2].split(",")) if len(a[0].split()) > 2 else 0
    for l in a:
        w = l.split()
        if w and w[0] == "dict":
            vals = [] if w[2] == "-" else w[2].split(",")
            if int(w[1]) != n or vals != [str(i) for i in range(n)] or w[3] != "none" or w[4] != "vc=1":
                bad.append(("dictionary", "the parser's dictionary / variable container disagrees with the name list (%d names): %s" % (n, l)))
        elif len(w) >= 5 and w[1] == "rebuild" and w[4].startswith("dict="):
            k = len([x for x in w[3][6:].split(",") if x])
            if w[4][5:].split(",") != [str(i) for i in range(k)] and k:
                bad.append(("dictionary", "after sorting the parser again its dictionary disagrees with the name list: %s" % l))
    return bad


def judge_adf(text, a, queries, sort="none", backend=None):
    """judges the implementation's answers against the definitions by enumeration; returns [(key, what)]"""
    bad = []
    if a is None or any(l.startswith("PANIC") or l.startswith("TIMEOUT") for l in a):
        if a and any(l.startswith("TIMEOUT") for l in a):
            return [("timeout", "no answer within the watchdog limit (non-termination)")], None
        return [("panic", "implementation panicked")], None
    if not a[0].startswith("parse OK"):
        return [("parse", "well-formed input rejected: %s" % a[0])], None
    names_impl = [bytes.fromhex(x[1:]).decode("utf8", "replace") for x in a[0].split()[2].split(",")] if len(a[0].split()) > 2 else []
    names, conds = oracle.parse_adf_text(text)
    if sorted(names) != sorted(names_impl):
        return [("names", "statement names differ: %r vs %r" % (names_impl, names))], None
    o = oracle.AdfOracle(names_impl, conds)
    bad.extend(judge_dict(a))
    exp_cache = {}
    def expected(kind):
        if kind not in exp_cache:
            exp_cache[kind] = {"grounded": lambda: [o.grounded()], "complete": o.complete, "stable": o.stable, "twoval": o.two_valued}[kind]()
        return exp_cache[kind]
    ans = {}
    for l in a:
        w = l.split(" ", 1)
        if w[0].startswith("q") and w[0][1:].isdigit():
            ans[int(w[0][1:])] = w[1]
    info = {}
    for k, q in enumerate(queries):
        r = ans.get(k)
        if r is None:
            bad.append(("missing", "no answer to query %s" % " ".join(q)))
            continue
        rw = ["" if x == "-" else x for x in r.split()]     # "-" is the interpretation of a framework without statements
        kind = q[0]
        if kind == "grounded":
            got = rw[1] if len(rw) > 1 else ""
            if [got] != expected("grounded"):
                bad.append(("grounded", "grounded: got %s, least fixpoint is %s" % (got, expected("grounded")[0])))
            info["grounded"] = got
            for l in a:
                w = l.split()
                if len(w) >= 4 and w[0] == "p%d" % k and w[1] == "printed":
                    shown = bytes.fromhex(w[2][1:]).decode("utf8", "replace")
                    want = "".join("%s(%s) " % (ch, nm) for ch, nm in zip(got, names_impl)) + "\n"
                    if shown != want or w[3] != "same=1":
                        bad.append(("printed", "the library prints the interpretation %s of %s as %r (through the PrintDictionary: %s)" % (got, names_impl, shown, w[3])))
        elif kind in ("complete", "stable", "stablepre", "stablerew", "stmca", "stmcb", "stmng", "stmngch", "twoval"):
            sem = {"complete": "complete", "twoval": "twoval"}.get(kind, "stable")
            got = rw[1:]
            if got and got[0] == "NONTERMINATION":
                bad.append(("timeout", "%s: no answer (non-termination)" % kind))
                continue
            exp = expected(sem)
            if len(set(got)) != len(got):
                bad.append((kind + ":duplicate", "%s lists a model twice: %s" % (kind, got)))
            if set(got) - set(exp):
                bad.append((kind + ":unsound", "%s lists %s which is not a %s model (definition: %s)" % (kind, sorted(set(got) - set(exp)), sem, exp)))
            if set(exp) - set(got):
                bad.append((kind + ":incomplete", "%s misses %s (listed: %s)" % (kind, sorted(set(exp) - set(got)), got)))
            if kind == "complete" and got and got[0] != expected("grounded")[0]:
                bad.append(("complete:order", "the grounded interpretation is not listed first"))
            info[kind] = len(got)
        elif kind == "counts" and q[1] == "0" and backend in (None, "native", "hyb0") and not any(x[0] == "rebuild" for x in queries):
            # Adf::formulacounts(false): (counter-models, models) of every condition as written, in exact ratio
            size_ = 1 << len(names_impl)
            for item, nm in zip(rw[1:], names_impl):
                cm, m = (int(x) for x in item.split("/"))
                ones = bin(formula_tt(conds.get(nm, ("bot",)), names_impl)).count("1")
                if cm + m == 0 or cm * ones != m * (size_ - ones):
                    bad.append(("counts:ratio", "formulacounts: statement %s has counts (%d, %d), its condition has %d counter-models and %d models among %d assignments" % (nm, cm, m, size_ - ones, ones, size_)))
                    break
        elif kind == "paths":
            # judged from the implementation's own node table (append-only: the last table printed has every handle)
            tabs = [l for l in a if " table " in l]
            nodes = []
            if tabs:
                for ent in tabs[-1].split(" table ", 1)[1].split(" ", 1)[1].split(";"):
                    v, lo, hi = ent.split(":")
                    nodes.append((int(v), int(lo), int(hi)))
            memo_p = {0: (1, 0), 1: (0, 1)}
            def npaths(h):
                if h not in memo_p:
                    v, lo, hi = nodes[h]
                    x, y = npaths(lo), npaths(hi)
                    memo_p[h] = (x[0] + y[0], x[1] + y[1])
                return memo_p[h]
            for item in rw[1:]:
                h, memo, naive = item.split(":")
                h = int(h)
                if h >= len(nodes) and h > 1:
                    continue
                want = "%d/%d" % npaths(h)
                if memo != want or naive != want:
                    bad.append(("paths:wrong", "path counts of handle %d: count cache / memoisation gives %s, plain call gives %s, the diagram has %s (to bottom / to top)" % (h, memo, naive, want)))
                    break
        elif kind == "facets" and not any(x[0] in ("rebuild", "reparse") for x in queries):
            # facet_count of the grounded interpretation: a decided statement has no counter-model (true) / no model (false)
            g = expected("grounded")[0]
            for item, ch, nm in zip(rw[1:], g, names_impl):
                cm, m = (int(x) for x in item.split(":")[0].split("/"))
                if (ch == "T" and (cm != 0 or m == 0)) or (ch == "F" and (m != 0 or cm == 0)):
                    bad.append(("facets:decided", "facet_count: statement %s is %s in the grounded interpretation but is reported with %d counter-models and %d models" % (nm, ch, cm, m)))
                    break
        elif kind == "panicflow":
            info.setdefault("panicflow", []).append("panicked" if "outcome=panicked" in r else "returned")
            if "same=1" not in r:
                bad.append(("panicflow", "after a caught panic of %s on an imported copy and the repair step, the same object answers differently from a repaired copy: %s" % (" ".join(q[1:]), r)))
        elif kind == "roundtrip":
            if "nodes_equal=1" not in r or "ac_equal=1" not in r:
                bad.append(("roundtrip:numbering", "round trip (%s) does not reproduce the node numbering / roots: %s" % (q[1], r)))
            if "uniq_equal=0" in r or "vdeps_equal=0" in r:
                bad.append(("roundtrip:bookkeeping", "round trip (%s) does not reproduce the unique table / variable sets: %s" % (q[1], r)))
    # the same query asked again later (after round trips or other calls) must give the same answer
    seen = {}
    for k, q in enumerate(queries):
        if q[0] in ("roundtrip", "table", "validate", "audit", "ops", "paths", "panicflow", "reseed"):
            continue
        key = tuple(q)
        r = ans.get(k)
        if r is not None and "Rand" in q:
            r = r.split()[0] + " " + " ".join(sorted(r.split()[1:]))     # the generator state advances between calls: order may differ
        if key in seen and r is not None and seen[key] != r.split(" ", 1)[-1]:
            bad.append(("history:" + q[0], "%s answers differently when asked again later: %s vs %s" % (" ".join(q), seen[key], r)))
        if r is not None:
            seen.setdefault(key, r.split(" ", 1)[-1])
    # Adf::seed with the same seed starts the random stream again: the first random search of the history, asked again right
    # after a re-seeding, gives the same models in the same order
    first_rand = next((k for k, q in enumerate(queries) if "Rand" in q), None)
    if first_rand is not None and not any(q[0] in ("rebuild", "reparse") or (q[0] == "roundtrip" and q[1] != "live") for q in queries):
        for k in range(first_rand + 2, len(queries)):
            if queries[k - 1] == ["reseed"] and queries[k] == queries[first_rand] and ans.get(k) is not None and ans.get(first_rand) is not None:
                if ans[k] != ans[first_rand] and "NONTERMINATION" not in ans[k] + ans[first_rand]:
                    bad.append(("reseed", "after seeding the object again with the same seed %s answers %s, the first time it answered %s" % (" ".join(queries[k]), ans[k], ans[first_rand])))
    info["n"] = len(names_impl)
    info["nstable"] = len(expected("stable")) if any(q[0] in ("stable", "stmca", "stmcb", "stmng", "stmngch", "stablepre") for q in queries) else None
    return bad, info


def run_adf_check(ck, res, replay, pid, queries_of, n_quick, n_thorough, nmax_q=7, nmax_t=9, tt3_q=0, tt3_t=0, ties=("TieLeaf",), seeds=False, case_timeout=None, backends=("native",), rerun=False):
    common_front(ck, res, pid, ties=ties)
    hbin = ck.build_harness(res)
    rng = gen.Rng(res.seed ^ int(pid[1:], 16))
    cf = gen.CaseFile()
    if replay:
        r = json.load(open(replay))
        cf.add("ADF", r["body"], meta=r["meta"])
    else:
        quick = res.tier == "quick"
        corpus = os.path.join(ck.ROOT, "corpus", "adf_%s.json" % pid)
        if os.path.exists(corpus):
            for c in json.load(open(corpus)):
                cf.add("ADF", c["body"], prefix="k", meta=c["meta"])
        for text, origin in adf_case_stream(res, rng, n_quick if quick else n_thorough, nmax_q if quick else nmax_t, tt3=tt3_q if quick else tt3_t):
            sort = rng.pick(["none", "none", "lexi"])
            backend = rng.pick(list(backends))
            if bio_unsafe(text):
                backend = "native"
            qs = queries_of(rng) if backends == ("native",) else queries_of(rng, backend)
            body = ["text " + gen.hexs(text), "sort " + sort, "backend " + backend]
            if seeds:
                body.append("seed %d" % rng.below(200))
            body += ["q " + " ".join(q) for q in qs]
            cf.add("ADF", body, meta={"text": text, "origin": origin, "queries": qs, "sort": sort, "backend": backend})
    env = {"VERIF_CASE_TIMEOUT_MS": str(case_timeout)} if case_timeout else None
    impl, model = correspond(ck, res, cf, hbin, pid, env=env)
    if rerun and hbin:
        rerun_determinism(ck, res, cf, hbin, impl, pid, env=env)
    nontriv = set()
    mism = 0
    dist = {}
    for cid, (kind, body, meta) in cf.meta.items():
        a, b = impl.get(cid), model.get(cid)
        if a and any(l == "SKIPPED" for l in a):
            res.extra["skipped_after_timeouts"] = res.extra.get("skipped_after_timeouts", 0) + 1
            continue
        bad, info = judge_adf(meta["text"], a, meta["queries"], meta.get("sort", "none"), meta.get("backend"))
        for key, what in bad:
            res.violations.append({"key": "adf:" + key, "what": what, "body": body, "meta": meta, "observed": a, "model": b})
        if info:
            for oc in info.get("panicflow", []):
                pf = res.extra.setdefault("caught_panic_flows", {})
                pf[oc] = pf.get(oc, 0) + 1
            dist[info["n"]] = dist.get(info["n"], 0) + 1
            g = info.get("grounded")
            if (g is None or "u" in g) and info["n"] >= 2:
                nontriv.add(meta["text"])
        # required agreement with the model: everything but handle numbers
        if a and any(l == "SKIPPED" for l in a):
            res.extra["skipped_after_timeouts"] = res.extra.get("skipped_after_timeouts", 0) + 1
            continue
        strip = lambda ls: ["NOANSWER" if (l.startswith("TIMEOUT") or l.endswith("NONTERMINATION")) else l for l in strip0(ls)]
        if a and any(l.startswith("TIMEOUT") for l in a) and b and any(l.endswith("NONTERMINATION") for l in b):
            continue
        strip0 = lambda ls: [re.sub(r"^(q\d+ panicflow same=1) outcome=\w+$", r"\1", re.sub(r"^(q\d+ grounded \S*) .*$", r"\1", l)) for l in (ls or []) if not l.startswith("ac ") and " table " not in l]
        if strip(a) != strip(b):
            mism += 1
            if mism <= 5:
                res.broken.append(("correspondence", "ADF case %s: implementation and model differ" % cid,
                                   json.dumps({"text": meta["text"], "impl": a, "model": b})[:2500]))
        elif [re.sub(r" outcome=\w+$", "", l) for l in a or []] != b:
            res.extra["handle_level_differences"] = res.extra.get("handle_level_differences", 0) + 1
    res.cov["evaluations"] = len(cf.meta)
    res.cov["distinct_nontrivial"] = len(nontriv)
    res.cov["rule"] = ("all truth-table ADFs with 1-2 statements, random truth-table ADFs with 3, structured random ADFs (all nine formula forms, self-support / "
                       "mutual attack / chain modes, statements without or with repeated ac) and fixed witnesses; with and without lexicographic sorting; "
                       "non-trivial = at least 2 statements and an undecided statement in the grounded interpretation, distinct texts; answers judged by "
                       "enumeration of all 3^n / 2^n interpretations and compared (T/F/u level required, handle level reported) with the extracted Coq model")
    res.cov["samples"] = [cf.meta[c][2]["text"] for c in list(cf.meta)[-12:-9]]
    res.extra["statements_distribution"] = dist
    res.extra["model_mismatches"] = mism
    bd = {}
    for cid, (kind, body, meta) in cf.meta.items():
        bd[meta.get("backend", "native")] = bd.get(meta.get("backend", "native"), 0) + 1
    res.extra["backend_distribution"] = bd
    return res


ALL_BACKENDS = ("native", "bio", "hyb0", "hyb1")


def via_import(rng, b, qs):
    """the semantics are also asked of an object that came through an export / import (serde + fix_import, or the node
    list + ordering + roots of the web service): a less common way to obtain an Adf, same answers required"""
    if b in ("native", "hyb0", "hyb1", "hybrew") and rng.chance(1, 6):
        return [["roundtrip", rng.pick(["json", "nodes"])]] + qs
    return qs


def check_C01(ck, res, replay):
    run_adf_check(ck, res, replay, "C01", lambda rng, b: via_import(rng, b, [["grounded"]]), 2000, 40000, nmax_q=8, nmax_t=10, backends=ALL_BACKENDS)
    return ck.finish(res, level_of(res.pid), ASSUME_COMMON + ASSUME_BIO)


def check_C02(ck, res, replay):
    run_adf_check(ck, res, replay, "C02", lambda rng, b: via_import(rng, b, [["grounded"], ["complete"]]), 1000, 16000, nmax_q=7, nmax_t=9, backends=ALL_BACKENDS)
    return ck.finish(res, level_of(res.pid), ASSUME_COMMON + ASSUME_BIO)


def c03_queries(rng, b):
    if b in ("bio", "biorew"):
        return [["stable"], ["stablerew"]]
    if b == "native":
        return [["stable"], ["stablepre"]] if rng.chance(1, 2) else [["stablepre"], ["stable"]]
    return rng.shuffle([["stable"], ["stablepre"], ["stablerew"]])


def check_C03(ck, res, replay):
    run_adf_check(ck, res, replay, "C03", lambda rng, b: via_import(rng, b, c03_queries(rng, b)), 1400, 28000, nmax_q=8, nmax_t=10,
                  backends=("native", "bio", "biorew", "hyb0", "hyb1", "hybrew"))
    return ck.finish(res, level_of(res.pid), ASSUME_COMMON + ASSUME_BIO)


ASSUME_BIO = ["biodivine-lib-bdd values are canonical Boolean functions (modelled by handles of the verified store); its dump format is validated per instance"]


def check_C04(ck, res, replay):
    run_adf_check(ck, res, replay, "C04", lambda rng: [["stmca"], ["stmcb"]] if rng.chance(1, 2) else [["stmcb"], ["stmca"]], 5000, 25000,
                  nmax_q=8, nmax_t=10, tt3_q=3000, tt3_t=60000, ties=("TieLeaf", "TieMoreModels", "TieFlagCount"))
    return ck.finish(res, level_of(res.pid), ASSUME_COMMON)


HEUS = [["Simple"], ["MinModMinPathsMaxVarImp"], ["MinModMaxVarImpMinPaths"], ["Rand"]]


def ng_queries(rng):
    k = rng.below(8)
    if k < 4:
        h = HEUS[k]
    else:
        order = rng.shuffle(range(8))
        h = ["Static", ",".join(map(str, order)), "".join(rng.pick("01") for _ in range(8))]
    return [[rng.pick(["stmng", "stmng", "twoval", "stmngch"])] + h]


def check_C05(ck, res, replay):
    run_adf_check(ck, res, replay, "C05", ng_queries, 1500, 30000, nmax_q=7, nmax_t=9, tt3_q=500, tt3_t=20000,
                  ties=("TieLeaf", "TieMoreModels", "TieFlagRand", "TieFlagExhaust", "TieDispatch"), seeds=True, case_timeout=8000)
    return ck.finish(res, level_of(res.pid), ASSUME_COMMON + ["rand::StdRng is an abstract stream of u64 draws, reproduced by an identically seeded generator in the harness"])


# ====================================================================== C12 feature configurations
FEATURE_SETS = []
for _adhoc, _af in ((0, []), (1, ["adhoccounting"]), (2, ["adhoccounting", "adhoccountmodels"])):
    for _vl in (0, 1):
        for _fe in (0, 1):
            FEATURE_SETS.append(("a%dv%df%d" % (_adhoc, _vl, _fe), "a%dv%d" % (_adhoc, _vl),
                                 _af + (["variablelist"] if _vl else []) + (["frontend"] if _fe else [])))
DEFAULT_SET = "a1v1f1"


def build_variants(ck, res, sets):
    """cargo build of the harness under each feature set (own target dir, 4 builds at a time)"""
    import concurrent.futures
    bins = {}
    def one(s):
        tag, cfg, feats = s
        r2 = ck.Result(res.pid, res.tier, res.seed)
        b = ck.build_harness(r2, features=feats, tag=tag)
        return tag, b, r2.broken
    with concurrent.futures.ThreadPoolExecutor(max_workers=4) as ex:
        for tag, b, broken in ex.map(one, sets):
            bins[tag] = b
            res.broken.extend(broken)
    return bins


def check_C12(ck, res, replay):
    common_front(ck, res, "C12", ties=["TieFlagDepth"])
    bins = build_variants(ck, res, FEATURE_SETS)
    rng = gen.Rng(res.seed ^ 0xC12)
    quick = res.tier == "quick"
    progs, adfs = [], []
    if replay:
        r = json.load(open(replay))
        (progs if r["kind"].startswith("PROG") else adfs).append((r["body"], r["meta"]))
    else:
        for _ in range(150 if quick else 4000):
            nv = 2 + rng.below(6)
            kind, body = gen.gen_prog(rng, nv, 8 + rng.below(30), queries=True)
            nreg = sum(1 for l in body if not l.startswith("q"))
            for _ in range(5):
                a = rng.below(nreg)
                body.append("q " + rng.pick(["paths %d %d" % (a, rng.below(2)), "models %d %d" % (a, rng.below(2)), "depth %d" % a, "deps %d" % a]))
            progs.append((body, {"nvars": nv}))
        for _ in range(60 if quick else 1200):
            nv = 4 + rng.below(4)
            kind, body = gen.gen_prog_sparse(rng, nv, queries=True)
            progs.append((body, {"nvars": nv}))
        for text, origin in adf_case_stream(res, rng, 80 if quick else 2500, 7, with_tt2=False):
            qs = [["grounded"], ["complete"], ["stable"], ["stmca"], ["stmng", "MinModMinPathsMaxVarImp"], ["counts", "0"], ["paths"],
                  ["roundtrip", "json"], ["paths"], ["depths"], ["ops", rand_ops(rng, 1)], ["paths"], ["roundtrip", "live"], ["ops", rand_ops(rng, 1)], ["grounded"], ["stmcb"], ["facets"],
                  ["panicflow"] + rng.pick([["grounded"], ["complete"], ["stable"], ["stmca"], ["stmng", "Simple"], ["counts", "0"], ["counts", "1"], ["facets"], ["ops", rand_ops(rng, 1)]]), ["table"]]
            adfs.append((["text " + gen.hexs(text), "sort none"] + ["q " + " ".join(q) for q in qs], {"text": text, "queries": qs}))
    outs = {}
    models = {}
    total = 0
    for tag, cfg, feats in FEATURE_SETS:
        cf = gen.CaseFile()
        for body, meta in progs:
            cf.add("PROG " + cfg, body, prefix="p", meta=meta)
        for body, meta in adfs:
            cf.add("ADF", body + ["cfg " + cfg], prefix="a", meta=meta)
        impl, model = correspond(ck, res, cf, bins.get(tag), "C12." + tag)
        outs[tag], models[tag] = impl, model
        total += len(cf.meta)
        last_cf = cf
    base = outs[DEFAULT_SET]
    def norm(lines, cfg):
        # the documented exception: memoised model counting with ad-hoc paths but without ad-hoc models
        out = []
        for l in (lines or []):
            if " table " in l or l.startswith("table") or l.startswith("ac "):
                continue
            out.append(re.sub(r"^(q\d+ panicflow same=1) outcome=\w+$", r"\1", l))     # which feature sets panic before the repair is not part of the answer
        return out
    memo_models = {}
    for cid, (kind, body, meta) in last_cf.meta.items():
        if kind.startswith("PROG"):
            qi = 0
            for l in body:
                if l.startswith("q "):
                    if l.startswith("q models") and l.split()[3] == "1":
                        memo_models.setdefault(cid, set()).add("q%d" % qi)
                    qi += 1
    nontriv = set()
    mism = 0
    for tag, cfg, feats in FEATURE_SETS:
        for cid, (kind, body, meta) in last_cf.meta.items():
            a, d, m = outs[tag].get(cid), base.get(cid), models[tag].get(cid)
            drop = memo_models.get(cid, set())
            fa = [l for l in norm(a, cfg) if l.split()[0] not in drop]
            fd = [l for l in norm(d, cfg) if l.split()[0] not in drop]
            fm = [l for l in norm(m, cfg) if not (cfg.startswith("a1") and l.split()[0] in drop)]
            fa_m = [l for l in norm(a, cfg) if not (cfg.startswith("a1") and l.split()[0] in drop)]
            if len(body) > 8:
                nontriv.add((tag, tuple(body)))
            for l in a or []:
                if " panicflow " in l:
                    oc = res.extra.setdefault("caught_panic_flows", {}).setdefault(tag, {})
                    k = "panicked" if "outcome=panicked" in l else "returned"
                    oc[k] = oc.get(k, 0) + 1
                    if "same=1" not in l:
                        res.violations.append({"key": "cfg:panicflow:%s" % cfg.split("v")[0], "what": "feature set %s: after a caught panic on an imported copy and the repair step the same object answers differently from a repaired copy: %s" % (tag, l),
                                               "kind": kind, "body": body, "meta": meta, "observed": a, "feature_set": feats})
            if fa != fd:
                diff = [(x, y) for x, y in zip(fa, fd) if x != y][:1]
                what = "feature set %s answers differently from the default build: %s" % (tag, diff)
                qk = diff[0][0].split()[1] if diff and len(diff[0][0].split()) > 1 else "other"
                res.violations.append({"key": "cfg:%s:%s" % (qk, cfg.split("v")[0]), "what": what, "kind": kind, "body": body, "meta": meta,
                                       "observed": a, "default": d, "feature_set": feats})
            if fa_m != fm:
                mism += 1
                if mism <= 5:
                    res.broken.append(("correspondence", "feature set %s case %s: implementation and model differ" % (tag, cid),
                                       json.dumps({"body": body, "impl": a, "model": m})[:2000]))
    res.cov["evaluations"] = total
    res.cov["distinct_nontrivial"] = len(nontriv)
    res.cov["rule"] = ("the same random programs with queries (paths / models naive+memoised / depth / deps) and the same ADFs with all semantics run on the "
                       "harness built under each of the 12 feature sets; every set compared with the default build (memoised models excluded where documented) "
                       "and with the Coq model evaluated under the same configuration; non-trivial = case with more than 8 lines, per feature set")
    res.cov["samples"] = [progs[0][0]] if progs else [adfs[0][0]]
    res.extra["feature_sets"] = [t for t, _, _ in FEATURE_SETS]
    res.extra["model_mismatches"] = mism
    return ck.finish(res, level_of(res.pid), ASSUME_COMMON + ["cargo feature unification as declared in lib/Cargo.toml (regenerated into Gen/GenFeatures.v)"])


# ====================================================================== C09 compilation (native + bridge)
def formula_tt(f, names):
    """truth table (bitmask over assignments of names, variable j = bit j) of a parsed formula"""
    n = len(names)
    tt = 0
    for x in range(1 << n):
        env = {names[j]: bool(x >> j & 1) for j in range(n)}
        if oracle.eval_formula(f, env):
            tt |= 1 << x
    return tt


def check_C09(ck, res, replay):
    common_front(ck, res, "C09", ties=["TieLeaf"])
    hbin = ck.build_harness(res)
    rng = gen.Rng(res.seed ^ 0xC09)
    cf = gen.CaseFile()
    quick = res.tier == "quick"
    if replay:
        r = json.load(open(replay))
        cf.add("ADF", r["body"], meta=r["meta"])
    else:
        def add(text, size):
            backend = rng.pick(["native", "hyb0", "hyb1"]) if not bio_unsafe(text) else "native"
            sort = rng.pick(["none", "lexi"])
            qs = [["validate"], ["acs"], ["table"]]
            cf.add("ADF", ["text " + gen.hexs(text), "sort " + sort, "backend " + backend] + ["q " + " ".join(q) for q in qs],
                   meta={"text": text, "queries": qs, "sort": sort, "backend": backend, "size": size})
        for text, origin in adf_case_stream(res, rng, 500 if quick else 8000, 8, with_tt2=quick is False):
            add(text, "small")
        for _ in range(40 if quick else 600):
            n = 20 + rng.below(21 if quick else 41)
            names = ["s%d" % i for i in range(n)]
            conds = [(nm, gen.gen_formula(rng, [rng.pick(names) for _ in range(6)], 3 + rng.below(6), nm)) for nm in names]
            add(gen.render_adf(rng, names, conds, {"shuffle": True}), "large")
    impl, model = correspond(ck, res, cf, hbin, "C09")
    nontriv = set()
    mism = 0
    sizes = {"small": 0, "large": 0}
    maxtable = 0
    for cid, (kind, body, meta) in cf.meta.items():
        a, b = impl.get(cid), model.get(cid)
        sizes[meta["size"]] += 1
        if a is None or any(l.startswith("PANIC") or l.startswith("TIMEOUT") or l == "build PANIC" for l in a):
            res.violations.append({"key": "compile:panic", "what": "compilation panicked / no answer", "body": body, "meta": meta, "observed": a})
            continue
        v = [l for l in (b or []) if " validate " in l or l.startswith("q0 validate")]
        if meta["backend"] != "native":
            if not v or not v[0].split("validate ", 1)[1].startswith("OK"):
                res.violations.append({"key": "bridge:" + (v[0].split("validate ", 1)[1][:40] if v else "no-validation"),
                                       "what": "the verified validator rejects the imported diagrams: %s" % (v[0] if v else "no validation line"),
                                       "body": body, "meta": meta, "observed": [l[:200] for l in a]})
        t = [l for l in a if " table " in l]
        if t:
            maxtable = max(maxtable, int(t[0].split(" table ")[1].split()[0]))
        # small instances: judge the implementation's handles by truth tables of the written formulas
        if meta["size"] == "small" and t:
            names_impl = [bytes.fromhex(x[1:]).decode() for x in a[0].split()[2].split(",")] if len(a[0].split()) > 2 else []
            names, conds = oracle.parse_adf_text(meta["text"])
            table = oracle.parse_table(t[0].split(" table ", 1)[1])
            tts, _, _ = oracle.truth_tables(table, len(names_impl))
            acs = [int(x) for x in [l for l in a if " acs " in l][0].split(" acs ")[1].split(",")] if names_impl else []
            if meta["backend"] != "hyb1":
                for i, nm in enumerate(names_impl):
                    exp = formula_tt(conds.get(nm, ("bot",)), names_impl)
                    if acs[i] >= len(tts) or tts[acs[i]] != exp:
                        res.violations.append({"key": "compile:wrong-function", "what": "the handle stored for statement %s does not denote its acceptance condition" % nm,
                                               "body": body, "meta": meta, "observed": a})
                        break
            if len(names_impl) >= 3:
                nontriv.add(meta["text"])
        elif meta["size"] == "large":
            nontriv.add(meta["text"])
        fa = [l for l in a if "validate" not in l]
        fb = [l for l in (b or []) if "validate" not in l]
        if fa != fb:
            mism += 1
            if mism <= 5:
                res.broken.append(("correspondence", "ADF case %s (%s): implementation and model tables/handles differ" % (cid, meta["backend"]),
                                   json.dumps({"text": meta["text"][:300], "impl": [l[:300] for l in a], "model": [l[:300] for l in (b or [])]})[:2500]))
    res.cov["evaluations"] = len(cf.meta)
    res.cov["distinct_nontrivial"] = len(nontriv)
    res.cov["programs"] = len(cf.meta)
    res.cov["disagreements_checked"] = mism
    res.cov["rule"] = ("small ADFs (<= 8 statements; judged by truth tables of the written formulas) and large ADFs (20-40, thorough 60 statements, formula depth up to 8), "
                       "compiled natively, imported from biodivine and imported after biodivine pre-grounding; each imported ADF is validated statement by statement by "
                       "the extracted verified validator (same handle as the natively compiled condition in one canonical store), and tables / handles are compared exactly "
                       "with the model's replay; non-trivial = at least 3 statements")
    res.cov["samples"] = [cf.meta[c][2]["text"][:200] for c in list(cf.meta)[:2]]
    res.extra["sizes"] = sizes
    res.extra["largest_table"] = maxtable
    res.extra["model_mismatches"] = mism
    return ck.finish(res, level_of(res.pid), ASSUME_COMMON + ASSUME_BIO)


# ====================================================================== C19 streaming mirror
def gen_stream(rng, nvars, nops):
    kind, body = gen.gen_prog(rng, nvars, nops, queries=False)
    body = [l for l in body if not l.startswith("q")]
    out = []
    approx_nodes = 0
    for l in body:
        out.append(l)
        approx_nodes += 2
        # polls and partial pumps between operations; cuts inside an operation's node burst by pumping fewer nodes than pending
        while rng.chance(2, 5):
            k = rng.below(6)
            if k < 2:
                out.append("pump1 %d" % rng.below(4))
            elif k < 3:
                out.append("pump2 %d" % rng.below(4))
            elif k < 5:
                out.append("poll1 %d" % rng.below(2 + approx_nodes))
            else:
                out.append("poll2 %d" % rng.below(2 + approx_nodes))
    if rng.chance(1, 4) and len(out) > 4:
        # the repair step applied to a store that is part of a stream (producer, relay or last mirror) in the middle of the run
        for _ in range(1 + rng.below(2)):
            out.insert(2 + rng.below(len(out) - 2), "fiximport " + rng.pick(["p", "p", "r", "m"]))
    if rng.chance(1, 8) and len(out) > 6:
        # whatever listens behind the relay goes away in the middle of the run: the relay must keep mirroring the producer
        out.insert(len(out) // 2 + rng.below(len(out) // 2), "dropdown")
    out.append("tables")
    # drain completely: everything pumped, both mirrors poll beyond the end
    out += ["pump1 100000", "poll1 99999999", "pump2 100000", "poll2 99999999", "tables", "mirroruniq"]
    # the relay is put together in one of the three ways the interface offers
    return ["relaymode %d" % rng.below(3)] + out


def judge_stream(body, a):
    bad = []
    if a is None or any(l.startswith("PANIC") for l in a):
        return [("panic", "implementation panicked")]
    for l in a:
        w = l.split(" ", 2)
        if w[1] == "tables":
            p, r, c = [t.strip().split(";") for t in w[2].split("|")]
            if r != p[:len(r)]:
                bad.append(("relay-not-prefix", "the relay's table is not a prefix of the producer's"))
            if c != p[:len(c)]:
                bad.append(("receiver-not-prefix", "the receiver's table is not a prefix of the producer's"))
            last = (p, r, c)
    cut = "dropdown" in body       # the receiver behind the relay was disconnected on purpose: only the relay has to catch up
    if last[0] != last[1] or (last[0] != last[2] and not cut):
        bad.append(("drained-unequal", "after draining the channel the tables differ" + (" (relay, after its downstream receiver was dropped)" if cut else "")))
    # poll answers: found iff the handle is present after polling
    qi = 0
    ans = {l.split()[0]: l.split() for l in a}
    for line in body:
        w = line.split()
        if w[0] in ("poll1", "poll2", "tables", "mirroruniq"):
            r = ans.get("q%d" % qi)
            qi += 1
            if w[0] == "mirroruniq" and r and r[2] != "0":
                bad.append(("mirror-unique-table", "a mirror does not find the nodes it received in its own unique table (asking for them again gives other handles or appends nodes: code %s)" % r[2]))
            if w[0].startswith("poll") and r:
                found, size = r[2] == "1", int(r[3])
                if found != (int(w[1]) < size):
                    bad.append(("poll-answer", "%s answers found=%s but the store holds %d nodes afterwards" % (line, found, size)))
    return bad


def check_C19(ck, res, replay):
    common_front(ck, res, "C19")
    hbin = ck.build_harness(res)
    rng = gen.Rng(res.seed ^ 0xC19)
    cf = gen.CaseFile()
    if replay:
        r = json.load(open(replay))
        cf.add("STREAM", r["body"], meta={})
    else:
        for _ in range(1500 if res.tier == "quick" else 40000):
            cf.add("STREAM", gen_stream(rng, 2 + rng.below(5), 4 + rng.below(22)), meta={})
    impl, model = correspond(ck, res, cf, hbin, "C19")
    nontriv = set()
    mism = polls = 0
    for cid, (kind, body, meta) in cf.meta.items():
        a, b = impl.get(cid), model.get(cid)
        polls += sum(1 for l in body if l.startswith("poll"))
        if sum(1 for l in body if l.startswith("poll")) >= 4:
            nontriv.add(tuple(body))
        for key, what in judge_stream(body, a):
            res.violations.append({"key": "stream:" + key, "what": what, "body": body, "observed": a, "model": b})
        if a != b:
            mism += 1
            if mism <= 5:
                res.broken.append(("correspondence", "stream case %s: implementation and model differ" % cid, json.dumps({"body": body, "impl": a, "model": b})[:2500]))
    # bounded channels and real threads (implementation only): a late relay, sends that wait for the consumer;
    # when everything has ended the three tables must be identical
    if hbin and not replay:
        cf3 = gen.CaseFile()
        for i in range(60 if res.tier == "quick" else 1500):
            kind, body = gen.gen_prog(rng, 3 + rng.below(4), 10 + rng.below(25), queries=False)
            body = [l for l in body if not l.startswith("q")]
            cf3.add("STREAMT %d %d" % (rng.below(5), rng.pick([0, 500, 3000])), body, prefix="t", meta={})
        out3, fails3 = ck.run_sharded(hbin, cf3.lines, "C19.threads", timeout=1200)
        threaded = 0
        for cid, (kind, body, meta) in cf3.meta.items():
            a = out3.get(cid)
            threaded += 1
            if not a or "relay_equal=1 last_equal=1" not in a[0]:
                res.violations.append({"key": "stream:bounded-channel", "what": "producer, relay and receiver on bounded channels (%s): after the producer ended and the channels were drained the tables are not identical: %s" % (kind, a),
                                       "kind": kind, "body": body, "observed": a})
        res.extra["threaded_bounded_channel_cases"] = threaded
    res.cov["evaluations"] = len(cf.meta)
    res.cov["distinct_nontrivial"] = len(nontriv)
    res.cov["rule"] = ("random producer programs; the harness owns the channels producer -> relay -> receiver and moves pending nodes one by one, so polls fall between "
                       "individual node creations; polls request random handles (present, pending, beyond); final drain; non-trivial = at least 4 polls; judged: every "
                       "mirror is a prefix of the producer's table, drained tables identical, found iff present after polling; compared with the extracted model")
    res.cov["samples"] = [cf.meta[c][1] for c in list(cf.meta)[:1]]
    res.extra["polls"] = polls
    res.extra["model_mismatches"] = mism
    return ck.finish(res, level_of(res.pid), ASSUME_COMMON + ["crossbeam-channel is a linearizable FIFO (modelled as a list); real thread interleavings are not exhibited by the model"])


# ====================================================================== C14 persistence round trips
def c14_queries(rng, b):
    sem = rng.shuffle([["grounded"], ["complete"], ["stable"], ["stmca"], ["stmng", "Simple"], ["counts", "0"]])[: 2 + rng.below(3)]
    how = rng.pick(["json", "nodes"])
    life = rng.below(3)
    pre = [] if life == 0 else sem          # fresh, or after computations have grown the table
    # after the round trip: every bookkeeping table (audit hook: unique table, variable sets, count cache,
    # memo tables), memoised counts, and new nodes built on the imported diagram before counting again
    after = [["audit"], ["paths"], ["counts", "0"], ["ops", rand_ops(rng, 1)], ["audit"], ["paths"], ["depths"]]
    qs = pre + [["acs"], ["depths"], ["table"], ["roundtrip", how], ["acs"], ["depths"], ["table"]] + after + sem
    if life == 2:
        qs += [["roundtrip", rng.pick(["json", "nodes", "live"])], ["table"], ["audit"], ["ops", rand_ops(rng, 1)], ["paths"]] + sem
    if rng.chance(1, 4):
        # an import that is used before it is repaired: the call panics, is caught, the same object is repaired and used again
        qs.insert(rng.below(len(qs) + 1), ["panicflow"] + rng.pick(sem + [["ops", rand_ops(rng, 1)], ["facets"]]))
    return qs


def check_C14(ck, res, replay):
    run_adf_check(ck, res, replay, "C14", c14_queries, 700, 12000, nmax_q=7, nmax_t=9, backends=("native", "hyb0", "hyb1"), ties=("TieLeaf", "TieFlagRepair"))
    # the CLI half of the property: --export never overwrites an existing file, --import reproduces the answers
    binary = build_cli(ck, res)
    if binary and not replay:
        import subprocess, shutil, hashlib as hl
        rng = gen.Rng(res.seed ^ 0xE14)
        tmpd = os.path.join(ck.WORK, "export.%d" % os.getpid())
        os.makedirs(tmpd, exist_ok=True)
        n_exp = 0
        for i in range(25 if res.tier == "quick" else 300):
            t1, _ = gen.gen_adf(rng, nmax=5, depth=3, layout={"shuffle": rng.chance(2, 3)})       # (declaration order = variable order: often not sorted)
            t2, _ = gen.gen_adf(rng, nmax=5, depth=3)
            f1, f2, ex = [os.path.join(tmpd, "%d.%s" % (i, x)) for x in ("a.adf", "b.adf", "json")]
            open(f1, "w").write(t1); open(f2, "w").write(t2)
            envp = {"PATH": os.environ.get("PATH", ""), "RUST_LOG": "error"}
            r1 = subprocess.run([binary, "--lib", "naive", "--export", ex, "--grd", "--stm", f1], capture_output=True, text=True, env=envp, timeout=60)
            if r1.returncode != 0 or not os.path.exists(ex):
                res.violations.append({"key": "export:failed", "what": "--export to a fresh path failed (exit %s)" % r1.returncode, "text": t1})
                continue
            h1 = hl.sha1(open(ex, "rb").read()).hexdigest()
            # earlier exports that live beside the new one (same stem, other extensions) are existing export files too
            ex2 = ex[:-5] + ".second.json"
            sib = [ex[:-5] + ".tmp", ex + ".tmp", ex + "~", ex[:-5] + ".bak", ex2[:-5] + ".tmp", ex2 + ".tmp", ex2[:-5] + ".bak"]
            for sp in sib:
                shutil.copy(ex, sp)
            subprocess.run([binary, "--lib", "naive", "--export", ex2, "--grd", f2], capture_output=True, text=True, env=envp, timeout=60)
            subprocess.run([binary, "--lib", "naive", "--export", ex, "--grd", f2], capture_output=True, text=True, env=envp, timeout=60)
            for sp in sib:
                if not os.path.exists(sp) or hl.sha1(open(sp, "rb").read()).hexdigest() != h1:
                    res.violations.append({"key": "export:overwrite:sibling", "what": "exporting to %s changed or removed the existing file %s beside it" % (os.path.basename(ex), os.path.basename(sp)), "text": t1, "second": t2})
                    break
            for sp in sib + [ex2]:
                if os.path.exists(sp):
                    os.remove(sp)
            r2 = subprocess.run([binary, "--lib", "naive", "--export", ex, "--grd", f2], capture_output=True, text=True, env=envp, timeout=60)
            h2 = hl.sha1(open(ex, "rb").read()).hexdigest()
            if h1 != h2:
                res.violations.append({"key": "export:overwrite", "what": "--export overwrote an existing file", "text": t1, "second": t2})
            # the other library modes (and the default) must not touch an existing export file either
            for libargs in ([], ["--lib", "hybrid"], ["--lib", "biodivine"]):
                subprocess.run([binary] + libargs + ["--export", ex, "--grd", f2], capture_output=True, text=True, env=envp, timeout=60)
                if hl.sha1(open(ex, "rb").read()).hexdigest() != h1:
                    res.violations.append({"key": "export:overwrite:" + (libargs[-1] if libargs else "default"), "what": "--export overwrote an existing file (library mode: %s)" % (libargs[-1] if libargs else "default"),
                                           "text": t1, "second": t2})
                    break
            r3 = subprocess.run([binary, "--lib", "naive", "--import", "--grd", "--stm", ex], capture_output=True, text=True, env=envp, timeout=60)
            if r3.returncode != 0 or r3.stdout != r1.stdout:
                res.violations.append({"key": "import:answers-differ", "what": "--import of an exported state answers differently from the original run",
                                       "text": t1, "observed": [r1.stdout, r3.stdout, r3.returncode]})
            # a sorting flag given together with --import must not change which value belongs to which statement
            as_maps = lambda out_: sorted(tuple(sorted((tok[2:-1], tok[0]) for tok in ln.split())) for ln in out_.splitlines() if ln.strip())
            for sflag in ("--lx", "--an"):
                r4 = subprocess.run([binary, "--lib", "naive", sflag, "--import", "--grd", "--stm", ex], capture_output=True, text=True, env=envp, timeout=60)
                if r4.returncode != 0 or as_maps(r4.stdout) != as_maps(r1.stdout):
                    res.violations.append({"key": "import:answers-differ:" + sflag, "what": "--import together with %s assigns the values to other statements than the original run" % sflag,
                                           "text": t1, "observed": [r1.stdout, r4.stdout, r4.returncode]})
                    break
            n_exp += 1
            for f in (f1, f2, ex):
                os.remove(f)
        res.extra["cli_export_import_runs"] = n_exp
    return ck.finish(res, level_of(res.pid), ASSUME_COMMON + ["serde / serde_json transport the records faithfully (exercised, not modelled)"])


# ====================================================================== C11 call histories
def rand_ops(rng, n):
    ops = []
    k = 1 + rng.below(5)
    for i in range(k):
        o = rng.pick(["not", "and", "or", "xor", "iff", "imp", "restrict", "var"])
        if o == "not":
            ops.append("not:%d" % rng.below(50))
        elif o == "restrict":
            ops.append("restrict:%d:%d:%d" % (rng.below(50), rng.below(n), rng.below(2)))
        elif o == "var":
            ops.append("var:%d" % rng.below(n))
        else:
            ops.append("%s:%d:%d" % (o, rng.below(50), rng.below(50)))
    return ";".join(ops)


def c11_queries_for(n):
    def f(rng, b):
        pool = [["grounded"], ["complete"], ["stable"], ["stablepre"], ["stmca"], ["stmcb"], ["stmng", "Simple"], ["stmng", "MinModMaxVarImpMinPaths"],
                ["twoval", "MinModMinPathsMaxVarImp"], ["stmng", "Rand"], ["counts", "0"], ["facets"], ["stmngch", "Simple"]]
        qs = []
        for _ in range(3 + rng.below(8)):
            k = rng.below(10)
            if k < 7:
                qs.append(rng.pick(pool))
            elif k < 9:
                qs.append(["ops", rand_ops(rng, n)])
            elif rng.chance(1, 2):
                qs.append(["roundtrip", "live"])     # the repair step is a public call like any other: applied to the live object
            elif rng.chance(1, 2):
                qs.append(["panicflow"] + rng.pick(pool[:9] + [["facets"], ["counts", "0"], ["ops", rand_ops(rng, n)]]))     # a call that panics and is caught
            else:
                qs.append(["audit"])
        qs.append(["audit"])
        qs.append(rng.pick(pool[:9]))     # the probe: an answer that is also checked against the definitions
        qs.append(["audit"])
        fr = next((q for q in qs if "Rand" in q), None)
        if fr is not None or rng.chance(1, 4):
            # the object is seeded again with the seed of the case: the random search repeats itself
            fr = fr or ["stmng", "Rand"]
            if fr not in qs:
                qs.append(fr)
            qs += [["reseed"], fr]
        return qs
    return f


def check_C11(ck, res, replay):
    # statement count is not known before generation: operand numbers are taken modulo the register file, variables modulo 1 (var 0 always exists)
    run_adf_check(ck, res, replay, "C11", c11_queries_for(1), 600, 10000, nmax_q=7, nmax_t=9, backends=("native", "hyb0", "hyb1"), seeds=True, case_timeout=15000,
                  ties=("TieLeaf", "TieMoreModels", "TieFlagRepair", "TieAc"), rerun=True)
    return ck.finish(res, level_of(res.pid), ASSUME_COMMON + ["HashMap iteration order is never observable through the modelled API"])


def rerun_determinism(ck, res, cf, hbin, first, tag, env=None):
    """repeating the same call sequences reproduces the same answers in the same order"""
    again, _ = ck.run_sharded(hbin, cf.lines, tag + ".again", env=env)
    diff = 0
    for cid in first:
        a = [l for l in first[cid] if not l.startswith("inject ")]
        b = [l for l in again.get(cid, []) if not l.startswith("inject ")]
        if a != b and not any(l in ("SKIPPED", "TIMEOUT") for l in a + b):
            diff += 1
            res.violations.append({"key": "nondeterminism", "what": "the same call sequence gave different answers on a second run", "first": a, "second": b,
                                   "body": cf.meta[cid][1], "meta": cf.meta[cid][2]})
    res.extra["determinism_reruns"] = len(first)
    res.extra["determinism_differences"] = diff


# ====================================================================== C10 presentation independence
def rename_formula_text(f, rho):
    """rename atoms in a prefix formula text (labels are plain alphanumeric here)"""
    out, i = [], 0
    kws = {"and", "or", "neg", "imp", "xor", "iff", "c"}
    while i < len(f):
        if f[i].isalnum():
            j = i
            while j < len(f) and f[j].isalnum():
                j += 1
            w = f[i:j]
            if j < len(f) and f[j] == "(" and w in kws:
                out.append(w)
            elif w in rho:
                out.append(rho[w])
            else:
                out.append(w)
            i = j
        else:
            out.append(f[i])
            i += 1
    return "".join(out)


def check_C10(ck, res, replay):
    common_front(ck, res, "C10", ties=["TieLeaf"])
    hbin = ck.build_harness(res)
    rng = gen.Rng(res.seed ^ 0xC10)
    cf = gen.CaseFile()
    groups = {}
    quick = res.tier == "quick"
    nbase = 220 if quick else 4000
    nlarge = 12 if quick else 150
    bases = []
    if replay:
        r = json.load(open(replay))
        for pr in r["presentations"]:
            cid = cf.add("ADF", pr["body"], meta=pr["meta"])
            groups.setdefault(0, []).append(cid)
    else:
        for b in range(nbase + nlarge):
            large = b >= nbase
            n = (30 + rng.below(31)) if large else (2 + rng.below(6))
            # labels whose byte-wise, natural and declaration orders all differ
            pool = rng.shuffle(["a", "B", "b10", "b9", "Z", "a1", "a01", "x", "10", "9", "c", "C2", "c10"] + ["s%d" % i for i in range(60)])
            names = pool[:n]
            conds = [(nm, gen.gen_formula(rng, [rng.pick(names) for _ in range(4)], 2 + rng.below(3 if not large else 5), nm)) for nm in names]
            qs = [["grounded"]] if large else [["grounded"], ["complete"], ["stable"], ["twoval", "Simple"]]
            backend = "native"
            if not large and b % 3 == 0:
                # one parser object used twice: instantiate, sort it lexicographically, instantiate again
                qs = qs + [["rebuild", "lexi"], ["grounded"], ["stable"], ["complete"]]
            if not large and b % 3 == 1:
                # the other ways to the stable models: pre-filter, counting search, nogood search
                qs = [["grounded"], ["stablepre"], ["stmca"], ["stmng", "Simple"]]
            elif not large and b % 3 == 2:
                # the biodivine back-end with the prepared single-formula rewriting
                backend, qs = "biorew", [["grounded"], ["stable"], ["stablerew"]]
            rho = {nm: "r%dq" % (len(names) - i) for i, nm in enumerate(sorted(names))}   # reverses the lexicographic order
            for pres in range(6):
                nm2, c2, sort, lay, ren = names, conds, "none", {}, None
                if pres == 1:
                    lay = {"shuffle": True, "ws": True}
                elif pres == 2:
                    sort = "lexi"
                elif pres == 3:
                    sort, lay = "alnum", {"shuffle": True}
                elif pres >= 4:
                    ren = rho
                    nm2 = [rho[x] for x in names]
                    c2 = [(rho[x], rename_formula_text(f, rho)) for x, f in conds]
                    sort = "lexi" if pres == 4 else "alnum"
                    lay = {"shuffle": pres == 5, "ws": pres == 5}
                text = gen.render_adf(rng, nm2, c2, lay)
                body = ["text " + gen.hexs(text), "sort " + sort, "backend " + backend] + ["q " + " ".join(q) for q in qs]
                cid = cf.add("ADF", body, meta={"text": text, "queries": qs, "sort": sort, "rename": ren, "pres": pres, "large": large, "backend": backend})
                groups.setdefault(b, []).append(cid)
            if backend == "native" and not large:
                # a seventh presentation: the same framework handed to ONE parser object in two pieces (parse() called twice; all
                # statements and some of the conditions first, an ADF is instantiated, then the remaining conditions, then again)
                cut = rng.below(len(conds) + 1)
                t1 = gen.render_adf(rng, names, conds[:cut], {})
                t2 = "".join("ac(%s,%s)." % (nm, f) for nm, f in conds[cut:]) or "s(%s)." % names[0]
                qs7 = [["grounded"], ["reparse", gen.hexs(t2)]] + qs
                body = ["text " + gen.hexs(t1), "sort none", "backend native"] + ["q " + " ".join(q) for q in qs7]
                cid = cf.add("ADF", body, meta={"text": t1 + t2, "queries": qs7, "sort": "none", "rename": None, "pres": 6, "large": large, "backend": backend})
                groups.setdefault(b, []).append(cid)
    impl, model = correspond(ck, res, cf, hbin, "C10", env={"VERIF_CASE_TIMEOUT_MS": "30000"})
    nontriv = set()
    mism = 0
    for b, cids in groups.items():
        views = []
        for cid in cids:
            kind, body, meta = cf.meta[cid]
            a, m = impl.get(cid), model.get(cid)
            if a is None or not a or not a[0].startswith("parse OK") or any(l.startswith("PANIC") or l.startswith("TIMEOUT") for l in a):
                res.violations.append({"key": "presentation:no-answer", "what": "no answer for a presentation", "presentations": [{"body": body, "meta": meta}], "observed": a})
                continue
            names = [bytes.fromhex(x[1:]).decode() for x in a[0].split()[2].split(",")]
            if meta["sort"] == "lexi" and names != sorted(names, key=lambda s: s.encode()):
                res.violations.append({"key": "presentation:lexi-order", "what": "with lexicographic sorting statements are not reported in byte-wise label order: %s" % names,
                                       "presentations": [{"body": body, "meta": meta}], "observed": a[:1]})
            for key, what in judge_dict(a):
                res.violations.append({"key": "presentation:" + key, "what": what, "presentations": [{"body": body, "meta": meta}], "observed": a[:3]})
            inv = {v: k for k, v in (meta["rename"] or {}).items()}
            view = []
            for l in a[2:]:
                w = l.split()
                if len(w) >= 4 and w[1] == "reparse":
                    if w[2] != "OK" or not w[3].startswith("names="):
                        res.violations.append({"key": "presentation:second-parse", "what": "the second piece of the text is rejected or cannot be instantiated by the parser that read the first piece: %s" % l,
                                               "presentations": [{"body": body, "meta": meta}], "observed": [l]})
                    else:
                        names = [bytes.fromhex(x[1:]).decode() for x in w[3][6:].split(",") if x]
                        view = []         # what was asked before the second piece belongs to another framework
                    continue
                if len(w) >= 4 and w[1] == "rebuild" and w[3].startswith("names="):
                    names = [bytes.fromhex(x[1:]).decode() for x in w[3][6:].split(",") if x]
                    if w[2] == "lexi" and names != sorted(names, key=lambda s_: s_.encode()):
                        res.violations.append({"key": "presentation:lexi-order", "what": "after sorting the parser lexicographically again the statements are not in byte-wise label order: %s" % names,
                                               "presentations": [{"body": body, "meta": meta}], "observed": [l]})
                    continue
                if len(w) >= 2 and w[1] in ("grounded", "complete", "stable", "twoval", "stablepre", "stablerew", "stmca", "stmng"):
                    vs = [w[2]] if w[1] == "grounded" else w[2:]
                    view.append((w[1], frozenset(frozenset((inv.get(nm, nm), ch) for nm, ch in zip(names, v)) for v in vs)))
            views.append((cid, view))
            # agreement with the model (sorting none / lexi are modelled; alnum only implementation vs implementation)
            if meta["sort"] != "alnum":
                strip = lambda ls: [re.sub(r"^(q\d+ grounded \S*) .*$", r"\1", l) for l in (ls or []) if not l.startswith("ac ")]
                if strip(a) != strip(m):
                    mism += 1
                    if mism <= 5:
                        res.broken.append(("correspondence", "presentation %s: implementation and model differ" % cid, json.dumps({"text": meta["text"][:300], "impl": a, "model": m})[:2000]))
        if views:
            ref = views[0][1]
            for cid, v in views[1:]:
                if v != ref:
                    res.violations.append({"key": "presentation:answers-differ", "what": "two presentations of the same ADF give different answers (as label -> value maps)",
                                           "presentations": [{"body": cf.meta[c][1], "meta": cf.meta[c][2]} for c in (views[0][0], cid)],
                                           "observed": [impl.get(views[0][0]), impl.get(cid)]})
                    break
            nontriv.add(b)
    # the same through the command line: every library mode x {no sort, --lx, --an}; printed lines read as label -> value maps
    cli_runs = 0
    if not replay:
        binary = build_cli(ck, res)
        if binary:
            cases = {}
            texts = {}
            for b in range(30 if quick else 400):
                n = 3 + rng.below(4)
                pool = rng.shuffle(["a", "B", "b10", "b9", "Z", "a1", "a01", "x", "10", "9", "c", "C2", "c10"])
                names = pool[:n]
                conds = [(nm, gen.gen_formula(rng, [rng.pick(names) for _ in range(4)], 1 + rng.below(3), nm)) for nm in names]
                texts[b] = gen.render_adf(rng, names, conds, {"shuffle": rng.chance(1, 2)})
                for mode in ("hybrid", "biodivine", "naive"):
                    for sort in ("none", "lexi", "alnum"):
                        for flag in ("grd", "com", "stm"):
                            cases["p%d.%s.%s.%s" % (b, mode, sort, flag)] = {"text": texts[b], "mode": mode, "sort": sort, "flags": [flag]}
            outs = run_cli_cases(ck, binary, cases)
            for b in texts:
                for flag in ("grd", "com", "stm"):
                    ref = None
                    for mode in ("hybrid", "biodivine", "naive"):
                        for sort in ("none", "lexi", "alnum"):
                            cid = "p%d.%s.%s.%s" % (b, mode, sort, flag)
                            o_ = outs.get(cid)
                            cli_runs += 1
                            if o_ is None or o_[0] != 0:
                                res.violations.append({"key": "presentation:cli-no-answer", "what": "adf-bdd --lib %s %s --%s gives no answer (exit %s)" % (mode, sort, flag, o_ and o_[0]),
                                                       "text": texts[b]})
                                continue
                            maps = frozenset(frozenset(re.findall(r"([TFu])\(([^)]*)\)", l)) for l in o_[1] if l.strip())
                            if ref is None:
                                ref = (cid, maps)
                            elif maps != ref[1]:
                                res.violations.append({"key": "presentation:cli-answers-differ", "what": "the command line prints different label -> value maps for %s and %s" % (ref[0], cid),
                                                       "text": texts[b], "observed": [outs[ref[0]][1][:6], o_[1][:6]]})
                                break
                        else:
                            continue
                        break
    res.extra["cli_presentation_runs"] = cli_runs
    res.cov["evaluations"] = len(cf.meta)
    res.cov["distinct_nontrivial"] = len(nontriv)
    res.cov["rule"] = ("%d small ADFs (2-7 statements, all semantics) and %d large ones (30-60 statements, grounded) in 6 presentations each: canonical; facts shuffled + layout; "
                       "lexicographic sort; alphanumeric sort + shuffle; renamed by a bijection reversing the lexicographic order (+ lexi); renamed + shuffled + alphanumeric; "
                       "labels chosen so that byte-wise, natural and declaration orders differ; answers compared as sets of label->value maps across presentations and with the model "
                       "(none / lexi); non-trivial = one base ADF with all presentations answered" % (nbase, nlarge))
    res.cov["samples"] = [cf.meta[c][2]["text"][:200] for c in list(cf.meta)[:3]]
    res.extra["model_mismatches"] = mism
    res.extra["groups"] = len(groups)
    return ck.finish(res, level_of(res.pid), ASSUME_COMMON + ["lexical_sort::natural_lexical_cmp is some total preorder (only 'the result is a permutation' is used by the theorem)"])


# ====================================================================== C15 command line
ALL_FLAGS = ["grd", "com", "stm", "stmca", "stmcb", "stmpre", "stmrew", "stmrew2", "stmng", "twoval"]
WIRED = {"hybrid": set(ALL_FLAGS), "biodivine": {"grd", "com", "stm", "stmrew", "stmrew2"}, "naive": {"grd", "com", "stm", "stmng"}}
DOC_HYBRID_ONLY = {"stmpre", "stmrew", "stmrew2"}          # marked "(only hybrid lib-mode)" in the usage text
SEM_OF = {"grd": "grounded", "com": "complete", "twoval": "twoval"}


def build_cli(ck, res):
    tdir = os.path.join(ck.ROOT, "harness", "target-bin")
    ck.source_guard(tdir, ["adf_bdd", "adf-bdd-bin"], ck.REPO)
    rc, out = ck.sh("cargo build --offline --quiet -p adf-bdd-bin", cwd=ck.REPO, env={"CARGO_TARGET_DIR": tdir}, timeout=1800)
    if rc != 0:
        res.broken.append(("build", "adf-bdd binary (cargo build -p adf-bdd-bin)", out[-2000:]))
        return None
    return os.path.join(tdir, "debug", "adf-bdd")


def run_cli_cases(ck, binary, cases):
    """runs the real binary; returns {cid: (exit, stdout lines)}"""
    import concurrent.futures, subprocess, tempfile
    tmpd = os.path.join(ck.WORK, "cli.%d" % os.getpid())
    os.makedirs(tmpd, exist_ok=True)
    def one(item):
        cid, c = item
        p = os.path.join(tmpd, cid + ".adf")
        with open(p, "w") as f:
            f.write(c["text"])
        args = [binary, "--lib", c["mode"]] + (["--lx"] if c["sort"] == "lexi" else ["--an"] if c["sort"] == "alnum" else []) + ["--" + x for x in c["flags"]]
        if c.get("heu"):
            args += ["--heu", c["heu"]]
        if c.get("export"):
            args += ["--export", c["export"]]
        if c.get("counter"):
            args += ["--counter", c["counter"]]
        args.append(p)
        try:
            r = subprocess.run(args, stdout=subprocess.PIPE, stderr=subprocess.PIPE, timeout=60, text=True, env={"PATH": os.environ.get("PATH", ""), "RUST_LOG": "error"})
            res_ = (r.returncode, r.stdout.splitlines(), r.stderr if len(r.stderr) <= 900 else r.stderr[:600] + " ... " + r.stderr[-300:])
        except subprocess.TimeoutExpired:
            res_ = ("timeout", [], "")
        os.remove(p)
        return cid, res_
    out = {}
    with concurrent.futures.ThreadPoolExecutor(max_workers=ck.NPROC) as ex:
        for cid, r in ex.map(one, cases.items()):
            out[cid] = r
    return out


def check_C15(ck, res, replay):
    common_front(ck, res, "C15", ties=["TieLeaf", "TieCli"])
    binary = build_cli(ck, res)
    rng = gen.Rng(res.seed ^ 0xC15)
    quick = res.tier == "quick"
    cases = {}
    cf = gen.CaseFile()
    def add(text, mode, sort, flags, heu=None, valid=True):
        body = ["text " + gen.hexs(text), "mode " + mode, "sort " + sort, "flags " + " ".join(flags)] + (["heu " + heu] if heu else [])
        cid = cf.add("CLI", body, meta={"text": text, "mode": mode, "sort": sort, "flags": flags, "heu": heu, "valid": valid})
        cases[cid] = cf.meta[cid][2]
    if replay:
        r = json.load(open(replay))
        m = r["meta"]
        add(m["text"], m["mode"], m["sort"], m["flags"], m.get("heu"), m.get("valid", True))
    else:
        nfiles = 120 if quick else 2000
        for _ in range(nfiles):
            text, n = gen.gen_adf(rng, nmax=6, depth=3, style=rng.below(2), layout={"shuffle": rng.chance(1, 3), "ws": rng.chance(1, 3)})
            for _ in range(6 if quick else 20):
                mode = rng.pick(["hybrid", "hybrid", "biodivine", "naive"])
                sort = rng.pick(["none", "lexi"])
                k = 1 + rng.below(4)
                flags = [f for f in ALL_FLAGS if f in set(rng.shuffle(ALL_FLAGS)[:k])]
                heu = rng.pick([None, None, "Simple", "MinModMinPathsMaxVarImp", "MinModMaxVarImpMinPaths"])
                add(text, mode, sort, flags, heu)
        # malformed inputs: no interpretation may be printed, non-zero exit
        for _ in range(150 if quick else 3000):
            text, n = gen.gen_adf(rng, nmax=4, depth=3, style=rng.below(3), layout={})
            m = gen.mutate(rng, text)
            if py_grammar(m) is None:
                add(m, rng.pick(["hybrid", "biodivine", "naive"]), "none", ["grd", "com", "stm"], None, valid=False)
        # grammatical text that is not an ADF: a condition for, or an atom naming, a statement that was never declared
        for _ in range(45 if quick else 600):
            text, n = gen.gen_adf(rng, nmax=4, depth=2, style=0, layout={}, degenerate=False)
            ghost = "zz%d" % rng.below(9)
            if rng.chance(1, 2):
                bad = text + "ac(%s,%s)." % (ghost, rng.pick(["c(v)", "a", "neg(a)"]))          # head not declared, at the end
                if rng.chance(1, 2):
                    bad = "ac(%s,c(v))." % ghost + text                                          # ... or in front
            else:
                bad = text + "s(q).ac(q,and(a,%s))." % ghost                                        # atom not declared
            add(bad, rng.pick(["hybrid", "biodivine", "naive"]), rng.pick(["none", "lexi"]), [rng.pick(["grd", "com", "stm"])], None, valid=False)
        # quoted labels with characters that are syntax elsewhere (documented format: any quoted string is a label)
        if not replay:
            for lab in ['"and(a,b)"', '"x(1)"', '"a b"', '"a,b"', '"!a"', '"p&q"', '"a=b"', '"q?"', '"s(a)."', '"é"']:
                t_ = 's(%s).s(k).s(m).ac(%s,neg(k)).ac(k,neg(%s)).ac(m,and(%s,neg(m))).' % (lab, lab, lab, lab)
                for mode in ("hybrid", "biodivine", "naive"):
                    add(t_, mode, rng.pick(["none", "lexi"]), ["grd", "stm"], None)
    if not replay:
        # many answers: ten self-supporting statements have 1024 two-valued models (and one stable model); every line must arrive
        many_ = "".join("s(m%d)." % i for i in range(10)) + "".join("ac(m%d,m%d)." % (i, i) for i in range(10))
        for mode in ("hybrid", "naive", "biodivine"):
            add(many_, mode, "none", ["twoval"], None)
            add(many_, mode, "none", ["stmng", "twoval"], "MinModMinPathsMaxVarImp")
    real = run_cli_cases(ck, binary, cases) if binary else {}
    model, f2 = ck.run_sharded(os.path.join(ck.ROOT, "ocaml", "driver"), cf.lines, "C15.model")
    if f2:
        res.broken.append(("correspondence", "model driver process failed", str(f2)))
    nontriv = set()
    mism = 0
    modes = {}
    for cid, c in cases.items():
        r, m = real.get(cid), model.get(cid)
        if r is None:
            continue
        code, lines, err = r
        modes[c["mode"]] = modes.get(c["mode"], 0) + 1
        if not c["valid"]:
            if code == 0 or lines:
                res.violations.append({"key": "cli:malformed-answered", "what": "malformed input: exit %s with %d output lines" % (code, len(lines)), "meta": c, "observed": [code, lines[:3]]})
            continue
        if code != 0 and c["mode"] in ("hybrid", "biodivine") and bio_unsafe(c["text"]) and "Variable name" in err and "is invalid" in err:
            # recorded finding: biodivine-lib-bdd refuses variable names with one of ! & | ^ = < > ( ) ? : and the two
            # library modes that go through it abort; identified by the mode and this very abort
            res.violations.append({"key": "cli:special-label:" + c["mode"], "what": "well-formed input with a quoted label containing one of %s: --lib %s aborts (exit %s)" % (BIO_FORBIDDEN, c["mode"], code),
                                   "meta": c, "observed": [code, err.strip().splitlines()[-1][:200] if err.strip() else ""]})
            continue
        if code != 0:
            key = "cli:heu-abort" if c.get("heu") and "Mismatch between definition and access" in err or (c.get("heu") and code == 101) else "cli:nonzero-exit"
            res.violations.append({"key": key, "what": "well-formed input, exit status %s: %s" % (code, err.strip().splitlines()[-1] if err.strip() else ""), "meta": c, "observed": [code, lines[:3]]})
            continue
        # judge: sections in the documented order with exactly the definitional interpretations
        names, conds = oracle.parse_adf_text(c["text"])
        if c["sort"] == "lexi":
            names = sorted(names, key=lambda s_: s_.encode())
        o = oracle.AdfOracle(names, conds)
        def fmt(v):
            return "".join("%s(%s) " % ({"T": "T", "F": "F", "u": "u"}[ch], nm) for nm, ch in zip(names, v))
        order = {"hybrid": ["grd", "com", "twoval", "stm", "stmca", "stmcb", "stmpre", "stmrew", "stmng"],
                 "biodivine": ["grd", "com", "stm", "stmrew"], "naive": ["grd", "com", "stm", "stmng"]}[c["mode"]]
        fl = set(c["flags"])
        if "stmrew2" in fl:
            fl.add("stmrew")
        pos = 0
        ok = True
        for f in order:
            if f not in fl:
                continue
            exp = {"grd": [o.grounded()], "com": o.complete(), "twoval": o.two_valued()}.get(f) or (o.stable() if f not in ("grd", "com", "twoval") else [])
            if f == "com" or f == "grd" or f == "twoval":
                exp = {"grd": [o.grounded()], "com": o.complete(), "twoval": o.two_valued()}[f]
            else:
                exp = o.stable()
            seg = lines[pos:pos + len(exp)]
            pos += len(exp)
            if sorted(seg) != sorted(fmt(v) for v in exp) or (f == "com" and seg and seg[0] != fmt(o.grounded())):
                ok = False
                res.violations.append({"key": "cli:wrong-section:" + f, "what": "section --%s of mode %s does not print exactly the prescribed interpretations" % (f, c["mode"]),
                                       "meta": c, "observed": lines, "expected_section": [fmt(v) for v in exp]})
                break
        if ok and pos != len(lines):
            res.violations.append({"key": "cli:extra-output", "what": "more output lines than the requested sections prescribe", "meta": c, "observed": lines})
        ignored = sorted(f for f in c["flags"] if f not in WIRED[c["mode"]] and f not in DOC_HYBRID_ONLY)
        for ig in ignored:
            res.violations.append({"key": "cli:ignored:%s:%s" % (c["mode"], ig),
                                   "what": "mode %s silently ignores --%s (exit 0, nothing printed for it, indistinguishable from 'no model')" % (c["mode"], ig),
                                   "meta": c, "observed": lines[:3]})
        if len(c["flags"]) >= 2:
            nontriv.add((c["text"], c["mode"], tuple(c["flags"]), c["sort"]))
        # agreement with the model
        if m is not None:
            ex = [l for l in m if l.startswith("exit")]
            secs = [l.split(" ", 3) for l in m if l.startswith("sec")]
            mlines, seglist = [], []
            for s_ in secs:
                ls = [bytes.fromhex(x[1:]).decode().rstrip("\n") for x in (s_[3].split(",") if len(s_) > 3 and s_[3] else [])]
                seglist.append((s_[2] == "1", ls))
            p2 = 0
            same = bool(ex) and ex[0] == "exit 0"
            for ordered, ls in seglist:
                seg = lines[p2:p2 + len(ls)]
                p2 += len(ls)
                if (seg != ls) if ordered else (sorted(seg) != sorted(ls)):
                    same = False
            if not same or p2 != len(lines):
                mism += 1
                if mism <= 5:
                    res.broken.append(("correspondence", "CLI case %s: binary and model differ" % cid, json.dumps({"meta": c, "stdout": lines, "model": m})[:2500]))
    res.cov["evaluations"] = len(cases)
    res.cov["distinct_nontrivial"] = len(nontriv)
    res.cov["rule"] = ("random well-formed files x --lib {hybrid, biodivine, naive} x {none, --lx} x random subsets (1-4) of the ten semantics flags x --heu {absent, 3 values}; "
                       "a malformed stream (byte-level mutations outside the grammar); the real binary built from the working tree is run; sections judged in the documented order "
                       "against brute-force semantics with labels, and compared with the Coq model of main.rs; non-trivial = at least two flags, distinct")
    res.cov["samples"] = [{k: v for k, v in c.items() if k != "valid"} for c in list(cases.values())[:2]]
    res.extra["modes"] = modes
    res.extra["model_mismatches"] = mism
    return ck.finish(res, level_of(res.pid), ASSUME_COMMON + ["clap = the record of parsed flags; process exit status 101 = panic"])


# ====================================================================== C16 / C17 web service
STRATS = ["Ground", "Complete", "Stable", "StableCountingA", "StableCountingB", "StableNogood"]
STRAT_KEY = {"Ground": "ground", "Complete": "complete", "Stable": "stable", "StableCountingA": "stable_counting_a",
             "StableCountingB": "stable_counting_b", "StableNogood": "stable_nogood"}


def hx(s):
    return "h" + s.encode().hex()


def tfu(ac):
    return "".join("T" if x == "1" else "F" if x == "0" else "u" for x in ac)


def fnv64(s):
    h = 0xcbf29ce484222325
    for b in s.encode():
        h ^= b
        h = (h * 0x100000001b3) & 0xFFFFFFFFFFFFFFFF
    return "%016x" % h


def graph_string(g, names):
    """canonical rendering of a DoubleLabeledGraph, the same as ocaml/driver.ml graph_string"""
    idx = sorted(int(k) for k in g["node_labels"])
    pos = {nm: i for i, nm in enumerate(names)}
    def lab(l):
        return l if l in ("TOP", "BOT") else "v%d" % pos[l]
    roots = {int(k): v for k, v in g["tree_root_labels"].items()}
    lo = sorted((int(a), int(b)) for a, b in g["lo_edges"])
    hi = sorted((int(a), int(b)) for a, b in g["hi_edges"])
    return ("N" + ",".join(map(str, idx)) + "L" + ",".join("%d=%s" % (h, lab(g["node_labels"][str(h)])) for h in idx)
            + "R" + ",".join("%d=%s" % (h, "+".join(str(pos[x]) for x in roots.get(h, []))) for h in idx)
            + "l" + ",".join("%d>%d" % e for e in lo) + "h" + ",".join("%d>%d" % e for e in hi))


def graph_string_canon(g, names):
    """the same with the nodes renumbered in preorder from the roots (statement order, lo before hi);
    the same as ocaml/driver.ml graph_string_canon"""
    import sys
    pos = {nm: i for i, nm in enumerate(names)}
    lo = {int(a): int(b) for a, b in g["lo_edges"]}
    hi = {int(a): int(b) for a, b in g["hi_edges"]}
    roots = sorted((pos[x], int(k)) for k, v in g["tree_root_labels"].items() for x in v)
    ren = {}
    def rec(k):
        if k in ren:
            return
        ren[k] = len(ren)
        if k in lo:
            rec(lo[k])
        if k in hi:
            rec(hi[k])
    old = sys.getrecursionlimit(); sys.setrecursionlimit(10000)
    try:
        for _, k in roots:
            rec(k)
        for k in sorted(int(k) for k in g["node_labels"]):
            rec(k)
    finally:
        sys.setrecursionlimit(old)
    def lab(l):
        return l if l in ("TOP", "BOT") else "v%d" % pos[l]
    nodes = sorted(ren[int(k)] for k in g["node_labels"])
    labels = sorted((ren[int(k)], lab(l)) for k, l in g["node_labels"].items())
    rts = sorted((ren[int(k)], sorted(pos[x] for x in g["tree_root_labels"].get(k, []))) for k in g["node_labels"])
    le = sorted((ren[a], ren[b]) for a, b in lo.items())
    he = sorted((ren[a], ren[b]) for a, b in hi.items())
    return ("N" + ",".join(map(str, nodes)) + "L" + ",".join("%d=%s" % x for x in labels)
            + "R" + ",".join("%d=%s" % (h, "+".join(map(str, l))) for h, l in rts)
            + "l" + ",".join("%d>%d" % e for e in le) + "h" + ",".join("%d>%d" % e for e in he))


GRAPH_NAMES = {}     # problem code -> statement names in variable order (no sorting in the service)


def opt3_string(o, names=None, canon=False):
    if o["type"] == "None":
        return "None"
    if o["type"] == "Error":
        return "Error"
    if names is None:
        return "Some:" + ",".join(tfu(x["ac"]) for x in o["content"])
    if canon:
        return "Some:" + ",".join(tfu(x["ac"]) + "~" + fnv64(graph_string_canon(x["graph"], names))[:8] for x in o["content"])
    return "Some:" + ",".join(tfu(x["ac"]) + "#" + fnv64(graph_string(x["graph"], names))[:8] for x in o["content"])


def pinfo_string(j):
    tasks = sorted("Parse" if t["type"] == "Parse" else "Solve:" + t["content"] for t in j["running_tasks"])
    a = j["acs_per_strategy"]
    names = None
    if well_declared(j["code"]):
        names = oracle.parse_adf_text(j["code"])[0]
    return ("problem %s %s code=%s parse=%s " % (hx(j["name"]), j["parsing_used"], hx(j["code"]), opt3_string(a["parse_only"], names, j["parsing_used"] == "Hybrid"))
            + " ".join("%s=%s" % (s_, opt3_string(a[STRAT_KEY[s_]], names, j["parsing_used"] == "Hybrid")) for s_ in STRATS) + " running=" + ",".join(tasks))


class ServerRun:
    """executes a history on the real server, records normalised observations and the model's event lines"""

    def __init__(self, sh, server):
        self.sh, self.server = sh, server
        self.clients = {}
        self.model_lines = []
        self.obs = []
        self.raw = []
        self.snapshots = []      # (client, request, other-documents-unchanged?)

    def client(self, k):
        if k not in self.clients:
            self.clients[k] = self.sh.Client()
        return self.clients[k]

    def docs(self):
        return {"users": self.server.coll("users"), "probs": self.server.coll("adf-problems")}

    def do(self, k, req):
        c = self.client(k)
        before = self.docs()
        kind = req[0]
        line = None
        if kind == "register":
            st, body = c.register(req[1], req[2]); line = "c %d register %s %s" % (k, hx(req[1]), hx(req[2]))
        elif kind == "login":
            st, body = c.login(req[1], req[2]); line = "c %d login %s %s" % (k, hx(req[1]), hx(req[2]))
        elif kind == "logout":
            st, body = c.logout(); line = "c %d logout" % k
        elif kind == "info":
            st, body = c.info(); line = "c %d info" % k
        elif kind == "update":
            st, body = c.update(req[1], req[2]); line = "c %d update %s %s" % (k, hx(req[1]), hx(req[2]))
        elif kind == "delacc":
            st, body = c.delete_account(); line = "c %d delacc" % k
        elif kind == "add":
            had = c.cookie is not None
            st, body = c.add(req[1], req[2], req[3])
            fresh = "unused"
            if not had and c.cookie is not None:
                s2, b2 = c.info()
                if s2 == 200:
                    fresh = json.loads(b2)["username"]
            line = "c %d add %s %s %s %s" % (k, hx(req[1]), hx(req[2]), req[3], hx(fresh))
        elif kind == "solve":
            st, body = c.solve(req[1], req[2]); line = "c %d solve %s %s" % (k, hx(req[1]), req[2])
        elif kind == "get":
            st, body = c.get(req[1]); line = "c %d get %s" % (k, hx(req[1]))
        elif kind == "list":
            st, body = c.list(); line = "c %d list" % k
        elif kind == "delete":
            st, body = c.delete(req[1]); line = "c %d delete %s" % (k, hx(req[1]))
        else:
            raise ValueError(req)
        self.model_lines.append(line)
        o = str(st)
        try:
            if st == 200 and kind in ("info", "update"):
                j = json.loads(body); o += " user %s %d" % (hx(j["username"]), 1 if j["temp"] else 0)
            elif st == 200 and kind == "get":
                o += " " + pinfo_string(json.loads(body))
            elif st == 200 and kind == "list":
                o += " problems " + " | ".join(sorted(pinfo_string(x) for x in json.loads(body)))
        except (ValueError, KeyError) as e:
            o += " UNPARSEABLE " + repr(e)
        self.obs.append(o)
        self.raw.append((k, req, st, body))
        after = self.docs()
        self.snapshots = [(k, req, before, after)]      # only the most recent one is ever looked at (the database grows with the run)
        # background tasks: wait until the problem is idle, then tell the model that its oldest pending task completed
        if st == 200 and kind in ("add", "solve"):
            c.wait_idle(req[1])
            self.model_lines.append("done 0 0")
        return st, body

    def dump(self):
        d = self.docs()
        us = sorted("%s:%s" % (hx(u["username"]), "temp" if u.get("password") is None else "perm") for u in d["users"])
        ps = sorted("%s/%s:%s:%s" % (hx(p["username"]), hx(p["name"]), p["adf"]["type"], hx(p["code"])) for p in d["probs"])
        self.model_lines.append("dump")
        self.obs.append("dump users=%s probs=%s" % (",".join(us), ",".join(ps)))


def graph_faithful(doc, strategy_key, names, conds):
    """checks every stored graph of one strategy against the stored node table; returns complaint or None"""
    if doc["adf"]["type"] != "Some":
        return None
    nodes = [(int(n["var"]), int(n["lo"]), int(n["hi"])) for n in doc["adf"]["content"]["bdd"]]
    order = doc["adf"]["content"]["ordering"]["names"]
    res = doc["acs_per_strategy"][strategy_key]
    if res["type"] != "Some":
        return None
    for entry in res["content"]:
        ac = [int(x) for x in entry["ac"]]
        g = entry["graph"]
        # the solve task rebuilds the diagram and may have grown it: only handles of the stored table can be judged here
        roots = set(ac)
        reach = set()
        stack = [r for r in roots]
        ok_table = all(r < len(nodes) for r in roots)
        if not ok_table:
            continue
        while stack:
            h = stack.pop()
            if h in reach:
                continue
            reach.add(h)
            if h >= 2:
                stack += [nodes[h][1], nodes[h][2]]
        if set(int(k) for k in g["node_labels"]) != reach:
            return "graph nodes %s are not exactly the nodes reachable from the roots %s" % (sorted(g["node_labels"]), sorted(reach))
        for h in reach:
            lbl = g["node_labels"][str(h)]
            exp = "BOT" if h == 0 else "TOP" if h == 1 else order[nodes[h][0]]
            if lbl != exp:
                return "node %d is labelled %s, the table says %s" % (h, lbl, exp)
        lo = {int(a): int(b) for a, b in g["lo_edges"]}
        hi = {int(a): int(b) for a, b in g["hi_edges"]}
        for h in reach:
            if h >= 2 and (lo.get(h) != nodes[h][1] or hi.get(h) != nodes[h][2]):
                return "edges of node %d differ from the table" % h
        if any(h < 2 for h in list(lo) + list(hi)):
            return "a terminal has outgoing edges"
        for i, r in enumerate(ac):
            if order[i] not in g["tree_root_labels"].get(str(r), []):
                return "node %d is not labelled as root of %s" % (r, order[i])
        # following edges from the root of s, under the truth values of the shown model, evaluates ac_s
        # restricted by that model (for parse_only the roots are the conditions themselves); small instances
        n = len(order)
        if n <= 8:
            model = tfu(entry["ac"]) if strategy_key != "parse_only" else "u" * n
            tts, _, _ = oracle.truth_tables(nodes, n)
            for i, r in enumerate(ac):
                f = conds.get(order[i], ("bot",))
                for x in range(1 << n):
                    xf = x
                    for j in range(n):
                        if model[j] == "T":
                            xf |= 1 << j
                        elif model[j] == "F":
                            xf &= ~(1 << j)
                    env = {order[j]: bool(xf >> j & 1) for j in range(n)}
                    if model[i] == "T":
                        v = True
                    elif model[i] == "F":
                        v = False
                    else:
                        v = oracle.eval_formula(f, env)
                    if bool(tts[r] >> xf & 1) != v:
                        return "the diagram under the root of %s does not evaluate its condition restricted by the model %s" % (order[i], model)
    return None


def atoms_of(f):
    if f[0] == "atom":
        return {f[1]}
    out = set()
    for x in f[1:]:
        if isinstance(x, tuple):
            out |= atoms_of(x)
    return out


def well_declared(text):
    """grammatical, and every ac fact and atom names a declared statement (otherwise construction panics)"""
    if py_grammar(text) is None:
        return False
    names, conds = oracle.parse_adf_text(text)
    return all(nm in names for nm in conds) and all(atoms_of(f) <= set(names) for f in conds.values())


def server_common(ck, res, pid):
    common_front(ck, res, pid, ties=["TieFilters", "TieDispatch"])
    import server_harness as sh
    binary, err = sh.build_server()
    if binary is None:
        res.broken.append(("build", "adf-bdd-server (cargo build -p adf-bdd-server)", err))
    return sh, binary


def overlapping_solves(res, sh, rng, rounds):
    """request order 'solve before/after other solves': a second strategy is requested while the task of the
    first one is still running (an odd attack cycle makes the enumeration of complete candidates slow while
    its answer stays tiny); when nothing runs any more every requested strategy must hold its answer.
    Judged directly against the definitions (not through the model: the interleaving is the server's)."""
    import time
    c = sh.Client()
    c.register("overlap", "pw"); c.login("overlap", "pw")
    for r in range(rounds):
        n = 9 + 2 * (r % 2)
        names = ["q%d" % i for i in range(n)]
        text = "".join("s(%s)." % x for x in names) + "".join("ac(%s,neg(%s))." % (names[i], names[(i + 1) % n]) for i in range(n))
        pname = "ov%d" % r
        st, body = c.add(pname, text, "Naive")
        c.wait_idle(pname, limit=60)
        first = "Complete"
        others = rng.shuffle(["Ground", "Stable", "StableNogood"])[: 1 + rng.below(2)]
        t0 = time.time()
        sts = [c.solve(pname, first)[0]] + [c.solve(pname, o)[0] for o in others]
        overlap = None
        st, body = c.get(pname)
        if st == 200:
            overlap = any(t.get("content") == first for t in json.loads(body)["running_tasks"])
        last = c.wait_idle(pname, limit=180)
        res.extra.setdefault("overlapping_solves", []).append({"statements": n, "strategies": [first] + others, "first_still_running_after_the_others_were_accepted": overlap,
                                                               "seconds": round(time.time() - t0, 2)})
        if last is None or last[0] != 200:
            res.violations.append({"key": "server:overlap:get", "what": "GET after overlapping solves answers %s" % (last and last[0]), "text": text})
            continue
        j = json.loads(last[1])
        o = oracle.AdfOracle(*oracle.parse_adf_text(text))
        for s_, code in zip([first] + others, sts):
            if code != 200:
                continue
            r_ = j["acs_per_strategy"][STRAT_KEY[s_]]
            exp = [o.grounded()] if s_ == "Ground" else (o.complete() if s_ == "Complete" else o.stable())
            if j["running_tasks"]:
                res.violations.append({"key": "server:running-stale", "what": "tasks still reported as running 180 s after overlapping solves: %s" % j["running_tasks"], "text": text})
                break
            if r_["type"] != "Some":
                res.violations.append({"key": "server:lost-result:" + s_, "what": "the solve request for %s was accepted (200) while %s was running; nothing runs any more but its answer is %s" % (s_, first, r_["type"]),
                                       "text": text, "requests": ["add %s (Naive)" % pname] + ["solve " + x for x in [first] + others] + ["wait until idle", "get"]})
            elif sorted(tfu(x["ac"]) for x in r_["content"]) != sorted(exp):
                res.violations.append({"key": "server:wrong-answer:" + s_, "what": "after overlapping solves the stored models for %s are not the definitional ones" % s_, "text": text})


def check_C16(ck, res, replay):
    sh, binary = server_common(ck, res, "C16")
    rng = gen.Rng(res.seed ^ 0xC16)
    quick = res.tier == "quick"
    cf = gen.CaseFile()
    runs = []
    nontriv = set()
    if binary:
        server = sh.Server(binary)
        try:
            nh = 14 if quick else 250
            run = ServerRun(sh, server)      # one continuous session: the database persists across histories
            texts = {}
            for hno in range(nh):
                cl = hno                      # one browser per history
                user = "u%dx%d" % (hno, rng.below(1000))
                anon = rng.chance(1, 4)
                if not anon:
                    run.do(cl, ("register", user, "pw"))
                    run.do(cl, ("login", user, "pw"))
                nprob = 1 + rng.below(2)
                for pi in range(nprob):
                    bad = rng.chance(1, 6)
                    if bad:
                        text = rng.pick(["s(a).ac(b,a).", "s(a).ac(a,b).", "s(a)", "s(a).ac(a,and(a)).", "s(a).x", " s(a)."])
                    else:
                        text, n = gen.gen_adf(rng, nmax=5, depth=3, style=0, layout={"shuffle": rng.chance(1, 3)})
                    big = (not bad) and rng.chance(1, 5)
                    if big:
                        # more than ten statements (two-digit positions in the stored ordering): a ring of attacks with a few supports
                        nb = 11 + rng.below(2)
                        nmsb = ["x%d" % i for i in range(nb)]
                        text = "".join("s(%s)." % x for x in nmsb) + "".join(
                            "ac(%s,%s)." % (nmsb[i], rng.pick(["neg(%s)" % nmsb[(i + 1) % nb], nmsb[(i + 3) % nb], "and(%s,neg(%s))" % (nmsb[(i + 2) % nb], nmsb[(i + 5) % nb]), "c(v)", "or(%s,%s)" % (nmsb[(i + 1) % nb], nmsb[(i + 4) % nb])]))
                            for i in range(nb))
                    name = "h%dp%d" % (hno, pi)
                    texts[name] = text
                    run.do(cl, ("add", name, text, rng.pick(["Naive", "Hybrid"])))
                    run.do(cl, ("get", name))
                    strategies = rng.shuffle(STRATS)[: 2 + rng.below(5)] if not big else rng.shuffle(["Ground", "Stable", "StableNogood", "StableCountingA"])[: 2 + rng.below(2)]
                    for st_ in strategies:
                        run.do(cl, ("solve", name, st_))
                        if rng.chance(1, 3):
                            run.do(cl, ("get", name))
                        if rng.chance(1, 6):
                            run.do(cl, ("solve", name, st_))       # already solved: conflict
                    run.do(cl, ("get", name))
                    if rng.chance(1, 3):
                        # the name is used again: the problem is deleted and another code is added under the same name, then solved;
                        # nothing computed for the deleted problem may show up in the new one
                        text2, _n2 = gen.gen_adf(rng, nmax=4, depth=3, style=0)
                        if rng.chance(1, 3):
                            text2 = rng.pick(["s(a).ac(a,c(f)).", "s(a).ac(a,c(v)).", "s(a).s(b).ac(a,neg(b)).ac(b,neg(a)).", "s(b).s(a).ac(a,a).ac(b,neg(a))."])
                        run.do(cl, ("delete", name))
                        run.do(cl, ("get", name))
                        texts[name] = text2
                        run.do(cl, ("add", name, text2, rng.pick(["Naive", "Hybrid"])))
                        run.do(cl, ("get", name))
                        for st_ in rng.shuffle(STRATS)[: 2 + rng.below(3)]:
                            run.do(cl, ("solve", name, st_))
                        run.do(cl, ("get", name))
                if rng.chance(1, 3):
                    # the account is renamed (a temporary user claims a name): every problem must follow its owner
                    user = user + "r%d" % rng.below(10)
                    run.do(cl, ("update", user, "pw2"))
                    for pi in range(nprob):
                        run.do(cl, ("get", "h%dp%d" % (hno, pi)))
                run.do(cl, ("list",))
                nontriv.add(hno)
            run.dump()
            cid = cf.add("SERVER", run.model_lines, meta={"texts": texts})
            runs.append((cid, run, texts))
            overlapping_solves(res, sh, rng, 2 if quick else 8)
        finally:
            server.close()
        if not quick:
            slow_scenarios(ck, res, sh, "C16")
    model, f2 = ck.run_sharded(os.path.join(ck.ROOT, "ocaml", "driver"), cf.lines, "C16.model")
    if f2:
        res.broken.append(("correspondence", "model driver process failed", str(f2)))
    mism = 0
    nsolved = 0
    for cid, run, texts in runs:
        m = [l.split(" ", 1)[1] for l in model.get(cid, [])]
        if m != run.obs:
            mism += 1
            if mism <= 4:
                d = [(a, b) for a, b in zip(run.obs, m) if a != b][:2]
                res.broken.append(("correspondence", "server history %s: implementation and model differ" % cid,
                                   json.dumps({"events": run.model_lines, "first_differences": d, "lengths": [len(run.obs), len(m)]})[:3000]))
        # judge the real server's final documents against the definitions
        owned = {}
        cur_text = {}
        exp_by_text = {}
        for k, req, st, body in run.raw:
            if req[0] == "add" and st == 200:
                owned.setdefault(k, set()).add(req[1])
                cur_text[req[1]] = req[2]
            if req[0] == "delete" and st == 200:
                owned.get(k, set()).discard(req[1])
            if req[0] == "get" and st == 404 and req[1] in owned.get(k, set()):
                res.violations.append({"key": "server:problem-lost", "what": "GET of a problem the client added (and did not delete) answers 404: the stored answers are never returned", "events": run.model_lines[-30:], "problem": req[1]})
            if req[0] == "get" and st == 200:
                j = json.loads(body)
                text = cur_text.get(j["name"], texts[j["name"]])
                if j.get("code") != text:
                    res.violations.append({"key": "server:wrong-code", "what": "the code shown for a problem is not the code most recently submitted under that name", "events": run.model_lines[-30:], "text": text, "shown": j.get("code")})
                g = py_grammar(text)
                a = j["acs_per_strategy"]
                declared_ok = well_declared(text)
                if declared_ok:
                    names, conds = oracle.parse_adf_text(text)
                    o = oracle.AdfOracle(names, conds)
                    exp_memo = exp_by_text.setdefault(text, {})      # the same problem is looked at by many GETs
                if a["parse_only"]["type"] == "Some" and not declared_ok:
                    res.violations.append({"key": "server:parsed-malformed", "what": "unparseable code is stored as parsed", "events": run.model_lines, "text": text})
                if a["parse_only"]["type"] == "Error" and declared_ok:
                    res.violations.append({"key": "server:rejected-valid", "what": "well-formed code reported as error", "events": run.model_lines, "text": text})
                if j["running_tasks"]:
                    key = "server:running-after-panic" if (g is not None and not declared_ok) else "server:running-stale"
                    res.violations.append({"key": key, "what": "a task that has ended is still reported as running: %s" % j["running_tasks"],
                                           "events": run.model_lines, "text": text})
                if declared_ok:
                    for s_ in STRATS:
                        r = a[STRAT_KEY[s_]]
                        if r["type"] == "Some":
                            nsolved += 1
                            got = [tfu(x["ac"]) for x in r["content"]]
                            sem_ = s_ if s_ in ("Ground", "Complete") else "Stable"
                            if sem_ not in exp_memo:
                                exp_memo[sem_] = o.complete() if sem_ == "Complete" else ([o.grounded()] if sem_ == "Ground" else o.stable())
                            exp = exp_memo[sem_]
                            if sorted(got) != sorted(exp):
                                res.violations.append({"key": "server:wrong-answer:" + s_, "what": "stored models for %s are %s, the definitions give %s" % (s_, got, exp),
                                                       "events": run.model_lines, "text": text})
                        elif r["type"] == "Error":
                            res.violations.append({"key": "server:solve-error:" + s_, "what": "solving a well-formed ADF ended in an error", "events": run.model_lines, "text": text})
        # graphs, from the stored documents
        if run.snapshots:
            for doc in run.snapshots[-1][3]["probs"]:
                text = texts.get(doc["name"])
                if text is None or doc["code"] != text or not well_declared(text):
                    continue        # (the stand-in database is shared by all histories of this run)
                names, conds = oracle.parse_adf_text(text)
                for sk in ["parse_only"] + list(STRAT_KEY.values()):
                    if sk == "parse_only" or True:
                        try:
                            c = graph_faithful(doc, sk, names, conds) if doc["acs_per_strategy"][sk]["type"] == "Some" else None
                        except (IndexError, KeyError, ValueError, TypeError) as e:
                            c = "the stored graph / models do not fit the problem's statements (%s: %s)" % (type(e).__name__, e)
                        if c:
                            res.violations.append({"key": "server:graph:" + sk, "what": c, "events": run.model_lines, "text": text})
    res.cov["evaluations"] = sum(len(r.obs) for _, r, _ in runs)
    res.cov["distinct_nontrivial"] = len(nontriv)
    res.cov["rule"] = ("request histories against the real server binary (MongoDB replaced by the in-process OP_MSG stand-in): register/login or anonymous (temporary user), "
                       "add with both parsing strategies (well-formed and malformed / undeclared-statement codes), gets, the six strategies in random order with repeated "
                       "solves and gets, list; after every started task the harness waits until the problem is idle; evaluations = requests; non-trivial = distinct histories; "
                       "stored models judged against brute-force semantics, graphs against the stored node table, everything compared with the Coq model of the handlers")
    res.cov["samples"] = [runs[0][1].model_lines[:12]] if runs else ["(server not built)"]
    res.extra["histories"] = len(runs)
    res.extra["solved_strategies_checked"] = nsolved
    res.extra["model_mismatches"] = mism
    return ck.finish(res, level_of(res.pid), ASSUME_COMMON + SERVER_ASSUME)


SERVER_ASSUME = ["actix-web / actix-identity / actix-session: request routing and cookie <-> username (exercised, not modelled)",
                 "tokio spawn_blocking + timeout: a task either completes, panics or times out (the 120 s timeout itself is not exercised)",
                 "MongoDB = the stub's subset (equality filters, $set, replacement, unique username); argon2 = an injective digest",
                 "requests are serialised by the harness: real concurrent request handling is not exhibited"]


def slow_scenarios(ck, res, sh, which):
    """scenarios that need a task to stay pending: run against the server built with its own
    mock_long_computations feature (every task sleeps 20 s).  Thorough tier only."""
    import time
    binary, err = sh.build_server(features=["mock_long_computations"], tag="server-mock")
    if binary is None:
        res.broken.append(("build", "adf-bdd-server --features mock_long_computations", err))
        return
    server = sh.Server(binary)
    try:
        # (1) rename + re-registration while the parse task of the old name is pending (C17)
        if which == "C17":
            a, b = sh.Client(), sh.Client()
            a.register("alice", "pa"); a.login("alice", "pa")
            a.add("p", "s(secretA).ac(secretA,c(v)).", "Naive")
            a.update("alice2", "pa")
            b.register("alice", "pb"); b.login("alice", "pb")
            time.sleep(1.0)
            b.add("p", "s(ownB).ac(ownB,c(f)).", "Naive")
            # alice's task (started first) ends about 1 s before bob's: in that window (for good, if the
            # running times differ the other way) bob's problem holds alice's diagram
            t0 = time.time(); seen = False
            while time.time() - t0 < 24 and not seen:
                doc = [d for d in server.coll("adf-problems") if d["username"] == "alice" and d["name"] == "p"]
                if doc and doc[0]["adf"]["type"] == "Some" and "secretA" in json.dumps(doc[0]["adf"]):
                    seen = True
                time.sleep(0.1)
            if seen:
                st, body = b.get("p")
                res.violations.append({"key": "isolation:rename-race", "what": "the parse result of alice's problem (started before she renamed herself) was written into the problem of the user who re-registered her old name",
                                       "events": ["alice adds p", "alice renames to alice2", "bob registers as alice, adds p", "alice's task completes"], "bob_get": body[:600]})
            time.sleep(3.0)
        if which == "C16":
            # (2) delete + re-add of a problem name while its first parse task is pending (C16)
            c = sh.Client()
            c.register("carol", "pc"); c.login("carol", "pc")
            c.add("q", "s(first).ac(first,c(v)).", "Naive")
            c.delete("q")
            time.sleep(1.0)
            c.add("q", "s(second).ac(second,c(f)).", "Naive")
            # every task of this build sleeps 20 s: the first task ends about 1 s before the second one;
            # in that window the new problem shows the diagram of the deleted one (with unequal running
            # times the second task can end first and the wrong diagram stays for good)
            t0 = time.time(); seen = False
            while time.time() - t0 < 24 and not seen:
                doc = [d for d in server.coll("adf-problems") if d["username"] == "carol" and d["name"] == "q"]
                if doc and doc[0]["adf"]["type"] == "Some" and "first" in json.dumps(doc[0]["adf"]) and "second" in doc[0]["code"]:
                    seen = True
                time.sleep(0.1)
            if seen:
                st, body = c.get("q")
                res.violations.append({"key": "server:stale-parse-after-readd", "what": "after delete + re-add of a problem name the pending parse task of the deleted problem stored its diagram in the new problem (code and diagram disagree)",
                                       "events": ["carol adds q (code 1)", "carol deletes q", "carol adds q (code 2)", "first task completes"], "get": body[:600]})
            time.sleep(22)
    finally:
        server.close()
    res.extra["slow_scenarios_run"] = 1


def check_C17(ck, res, replay):
    sh, binary = server_common(ck, res, "C17")
    rng = gen.Rng(res.seed ^ 0xC17)
    quick = res.tier == "quick"
    cf = gen.CaseFile()
    runs = []
    nreq = 0
    kinds = {}
    if binary:
        server = sh.Server(binary)
        try:
            run = ServerRun(sh, server)
            base = 0
            for hno in range(10 if quick else 200):
                ncl = 2 + rng.below(2)
                cl = [base + i for i in range(ncl)]
                base += 10
                acct = {c: None for c in cl}          # account name the client believes it is logged in as
                # (some passwords are longer than 64 / 72 bytes: every byte of a password counts)
                pw = {c: rng.pick(["pw%dq%d", " pw%d q%d ", "pw%dq%d  ", "\tpw%dq%d", "L" * 70 + "pw%dq%d", "m" * 64 + "%d-%d"]) % (c, rng.below(100)) for c in cl}
                names = {c: "acc%dh%d" % (c, hno) for c in cl}
                pnames = ["shared", "p1", "p2"]
                exists = {}
                for _ in range(18 + rng.below(18)):
                    c = rng.pick(cl)
                    k = rng.below(100)
                    tag = "own%d" % c
                    code = "s(%s).ac(%s,c(v))." % (tag, tag) + rng.pick(["", "s(x).ac(x,neg(x)).", "s(y).ac(y,y).s(z).ac(z,neg(y))."])
                    if k < 10:
                        req = ("register", names[c], pw[c])
                    elif k < 22:
                        req = ("login", names[c], pw[c] if rng.chance(4, 6) else rng.pick(["wrong", pw[c].strip() + " ", " " + pw[c].strip(), pw[c].strip(), pw[c][:-1] + "#", pw[c] + "x", pw[c][:-1]]))
                    elif k < 26:
                        req = ("login", names[rng.pick(cl)], "guess")          # somebody else's account, wrong password
                    elif k < 30:
                        req = ("logout",)
                    elif k < 35:
                        req = ("info",)
                    elif k < 41:
                        newname = names[c] + "r" if rng.chance(1, 2) else names[c]
                        newpw = rng.pick(["n%s", " n%s ", "n%s "]) % pw[c].strip() if rng.chance(1, 2) else pw[c]
                        if rng.chance(1, 5):
                            # the same name in another capitalisation is another name
                            newname = names[c].swapcase() if names[c].swapcase() != names[c] else names[c] + "R"
                        if rng.chance(1, 4):
                            # a name that somebody else may hold already (refused then: nothing about the account may change)
                            newname = names[rng.pick([x for x in cl if x != c])]
                            newpw = "n" + pw[c].strip()
                        req = ("update", newname, newpw)
                    elif k < 44:
                        req = ("delacc",)
                    elif k < 62:
                        req = ("add", rng.pick(pnames), code, rng.pick(["Naive", "Hybrid"]))
                    elif k < 72:
                        req = ("solve", rng.pick(pnames), rng.pick(STRATS))
                    elif k < 86:
                        req = ("get", rng.pick(pnames))
                    elif k < 93:
                        req = ("list",)
                    else:
                        req = ("delete", rng.pick(pnames))
                    st, body = run.do(c, req)
                    nreq += 1
                    kinds[req[0]] = kinds.get(req[0], 0) + 1
                    # login succeeds iff the password is the one most recently set (judged directly; the model agrees by C17_login_iff)
                    if req[0] == "login" and req[1] == names[c]:
                        if req[2] == pw[c] and exists.get(c) and st != 200:
                            res.violations.append({"key": "credentials:login-refused", "what": "login with the most recently set password %r is refused (%s)" % (req[2], st), "events": list(run.model_lines)})
                        if req[2] != pw[c] and st == 200:
                            res.violations.append({"key": "credentials:login-accepted", "what": "login succeeds with %r although the password most recently set is %r" % (req[2], pw[c]), "events": list(run.model_lines)})
                    if req[0] == "register" and st == 200:
                        exists[c] = True
                    if req[0] == "delacc" and st == 200:
                        exists[c] = False
                    if req[0] == "update" and st == 200:
                        names[c], pw[c] = req[1], req[2]
                        exists[c] = True
                    if req[0] == "update" and st != 200:
                        kq_, rq_, before_, after_ = run.snapshots[-1]
                        canon_u = lambda docs: sorted(json.dumps(d, sort_keys=True, default=repr) for d in docs["users"])
                        if canon_u(before_) != canon_u(after_):
                            res.violations.append({"key": "credentials:refused-update-changes-account", "what": "an update request that was refused (%s) changed a stored account (name or credential)" % st, "events": list(run.model_lines)})
                    # direct judgements on the real server's behaviour
                    if st == 200 and req[0] in ("get", "list"):
                        for other in cl:
                            if other != c and ("own%d)" % other) in body.replace("\\", ""):
                                res.violations.append({"key": "isolation:leak:" + req[0], "what": "client %d received a problem created by client %d" % (c, other),
                                                       "events": list(run.model_lines), "observed": body[:300]})
                    if st != 401 and req[0] in ("get", "list", "solve", "delete", "info", "logout", "delacc") and run.client(c).cookie is None and "temp" not in body:
                        pass
                    kq, rq, before, after = run.snapshots[-1]
                    def foreign(docs):
                        return sorted(json.dumps(d, sort_keys=True, default=repr) for d in docs["probs"] if ("own%d)" % c) not in d.get("code", ""))
                    post = run.docs()        # taken after the background task of an add / solve has ended
                    if foreign(before) != foreign(post) or (req[0] not in ("add", "solve") and foreign(before) != foreign(after)):
                        res.violations.append({"key": "isolation:foreign-modified:" + req[0], "what": "a request of client %d changed a problem created by another client" % c,
                                               "events": list(run.model_lines)})
                    if req[0] in ("delacc", "logout") and st == 200 and run.client(c).cookie is not None:
                        res.violations.append({"key": "credentials:session-survives:" + req[0], "what": "after a successful %s the browser still holds a valid session cookie (whoever registers the name next is exposed to it)" % req[0],
                                               "events": list(run.model_lines)})
                    # every stored problem belongs to an existing account (nothing is left behind by delete-account /
                    # logout of a temporary user for whoever takes the name next)
                    if req[0] in ("delacc", "logout", "update"):
                        unames = set(u.get("username") for u in post["users"])
                        orphans = [d for d in post["probs"] if d.get("username") not in unames]
                        if orphans:
                            res.violations.append({"key": "isolation:orphan-problem:" + req[0], "what": "after %s a problem of a user name that no longer exists stays in the database (%s/%s): the next account of that name inherits it" % (
                                req[0], orphans[0].get("username"), orphans[0].get("name")), "events": list(run.model_lines)})
                    for u in after["users"]:
                        p = u.get("password")
                        if p is not None and (not p.startswith("$argon2") or any(p == x or x in p for x in pw.values())):
                            res.violations.append({"key": "credentials:plain", "what": "stored credential is not a salted hash: %r" % p, "events": list(run.model_lines)})
                # unauthenticated requests obtain no problem data
                anon = base + 9
                for rq in (("get", "shared"), ("list",), ("solve", "shared", "Stable"), ("delete", "shared")):
                    st, body = run.do(anon, rq)
                    nreq += 1
                    if st != 401:
                        res.violations.append({"key": "unauthenticated:" + rq[0], "what": "an unauthenticated %s is answered with %s" % (rq[0], st), "events": list(run.model_lines)})
            # scripted sweep: two users own a problem of the same name (both insertion orders); every request kind
            # that addresses a problem by name is issued by each of them; the other user's document must not change
            # and no response may carry the other user's tag (a database filter without the user name at any one
            # call site shows up here with a concrete request sequence)
            sA, sB = base + 30, base + 31
            for cdx, nm in ((sA, "sweepA"), (sB, "sweepB")):
                run.do(cdx, ("register", nm, "pw" + nm)); run.do(cdx, ("login", nm, "pw" + nm)); nreq += 2
            def docs_of(tagc):
                return sorted(json.dumps(d, sort_keys=True, default=repr) for d in run.docs()["probs"] if ("own%d)" % tagc) in d.get("code", ""))
            for first, second, pname in ((sA, sB, "col1"), (sB, sA, "col2")):
                for cdx in (first, second):
                    run.do(cdx, ("add", pname, "s(own%d).ac(own%d,c(v)).s(w).ac(w,neg(w))." % (cdx, cdx), "Naive")); nreq += 1
                for actor, other in ((second, first), (first, second)):
                    for rq in (("solve", pname, "Ground"), ("get", pname), ("list",), ("solve", pname, "Stable"), ("get", pname)):
                        keep = docs_of(other)
                        st, body = run.do(actor, rq); nreq += 1
                        if docs_of(other) != keep:
                            res.violations.append({"key": "isolation:foreign-modified:" + rq[0], "what": "a %s request of one user changed the problem of the same name that belongs to another user" % rq[0],
                                                   "events": run.model_lines[-40:]})
                        if st == 200 and rq[0] in ("get", "list") and ("own%d)" % other) in body.replace("\\", ""):
                            res.violations.append({"key": "isolation:leak:" + rq[0], "what": "a %s response contains a problem created by another user" % rq[0],
                                                   "events": run.model_lines[-40:], "observed": body[:300]})
                keep = docs_of(first)
                run.do(second, ("delete", pname)); nreq += 1
                if docs_of(first) != keep:
                    res.violations.append({"key": "isolation:foreign-modified:delete", "what": "deleting a problem removed or changed the problem of the same name that belongs to another user",
                                           "events": run.model_lines[-40:]})
                st, body = run.do(first, ("get", pname)); nreq += 1
                if st != 200 or ("own%d)" % first) not in body.replace("\\", ""):
                    res.violations.append({"key": "isolation:own-problem-lost", "what": "after another user deleted a problem of the same name the owner's problem is gone",
                                           "events": run.model_lines[-40:], "observed": body[:200]})
            # scripted scenario: one account open in two browsers, deleted in one, name registered again by somebody else
            b0, b1, b2 = base + 20, base + 21, base + 22
            run.do(b0, ("register", "twice", "pwA")); run.do(b0, ("login", "twice", "pwA")); run.do(b2, ("login", "twice", "pwA"))
            run.do(b0, ("delacc",))
            run.do(b1, ("register", "twice", "pwB")); run.do(b1, ("login", "twice", "pwB"))
            run.do(b1, ("add", "mine", "s(own%d).ac(own%d,c(v))." % (b1, b1), "Naive"))
            st, body = run.do(b2, ("get", "mine"))
            nreq += 8
            if st == 200 and ("own%d)" % b1) in body:
                res.violations.append({"key": "isolation:stale-session-after-delete",
                                       "what": "a browser still holding the cookie of a deleted account reads (and can delete) the problems of the user who registered that name afterwards",
                                       "events": run.model_lines[-14:], "observed": body[:200]})
            run.do(b2, ("delete", "mine"))
            # scripted scenario: a rename to a name that is taken is refused and changes nothing - neither for a registered user nor
            # for a temporary one (whose generated name must stay unusable for a login)
            t0, t1, t2, t3 = base + 40, base + 41, base + 42, base + 43
            run.do(t0, ("register", "holder", "pwH")); run.do(t1, ("register", "mover", "pwM")); run.do(t1, ("login", "mover", "pwM"))
            canon_u = lambda docs: sorted(json.dumps(d, sort_keys=True, default=repr) for d in docs["users"])
            st_u, _ = run.do(t1, ("update", "holder", "pwStolen"))
            _k, _r, bef, aft = run.snapshots[-1]
            st_old, _ = run.do(t3, ("login", "mover", "pwM"))
            st_new, _ = run.do(t3, ("login", "mover", "pwStolen"))
            nreq += 6
            if st_u == 200 or canon_u(bef) != canon_u(aft) or st_old != 200 or st_new == 200:
                res.violations.append({"key": "credentials:refused-update-changes-account",
                                       "what": "a rename to a name that is taken (answer %s) changed the account: login with the old password %s, with the password of the refused request %s" % (st_u, st_old, st_new),
                                       "events": run.model_lines[-8:]})
            run.do(t2, ("add", "tmpp", "s(own%d).ac(own%d,c(v))." % (t2, t2), "Naive"))       # creates a temporary user
            st_i, body_i = run.do(t2, ("info",))
            st_u2, _ = run.do(t2, ("update", "holder", "pwT"))
            _k, _r, bef2, aft2 = run.snapshots[-1]
            st_i2, body_i2 = run.do(t2, ("info",))
            nreq += 4
            try:
                tmpname = json.loads(body_i)["username"]
                still_temp = json.loads(body_i2).get("temp")
            except (ValueError, KeyError, TypeError):
                tmpname, still_temp = None, None
            st_l = None
            if tmpname:
                st_l, _ = run.do(t3, ("login", tmpname, "pwT")); nreq += 1
            if st_u2 == 200 or canon_u(bef2) != canon_u(aft2) or still_temp is not True or st_l == 200:
                res.violations.append({"key": "credentials:refused-update-changes-account",
                                       "what": "a temporary user's rename to a name that is taken (answer %s) changed the account: temp=%s afterwards, login to the generated name with the refused password answers %s" % (st_u2, still_temp, st_l),
                                       "events": run.model_lines[-8:]})
            # scripted scenario: long passwords - two passwords that agree on their first 64 (72, 128) bytes are different passwords
            for n_, plen in enumerate((64, 72, 128)):
                kk = base + 60 + n_
                nm_ = "longpw%d" % plen
                good, other = "a" * plen + "tail-one", "a" * plen + "tail-two"
                run.do(kk, ("register", nm_, good))
                st_g, _ = run.do(kk, ("login", nm_, good))
                st_o, _ = run.do(base + 70 + n_, ("login", nm_, other))
                st_p, _ = run.do(base + 70 + n_, ("login", nm_, "a" * plen))
                nreq += 4
                if st_g != 200 or st_o == 200 or st_p == 200:
                    res.violations.append({"key": "credentials:login-accepted", "what": "an account with a password of %d bytes: login with the password answers %s, with another password that shares its first %d bytes %s, with those %d bytes alone %s" % (
                        plen + 8, st_g, plen, st_o, plen, st_p), "events": run.model_lines[-4:]})
            # scripted scenario: a rename that changes only the capitalisation is a rename like any other - session and problems
            # follow the new name, the old name is free again and whoever registers it sees nothing of the first user
            k0, k1 = base + 50, base + 51
            run.do(k0, ("register", "Carol", "pwC")); run.do(k0, ("login", "Carol", "pwC"))
            run.do(k0, ("add", "cprob", "s(own%d).ac(own%d,c(v))." % (k0, k0), "Naive"))
            st_r, _ = run.do(k0, ("update", "carol", "pwC"))
            st_i3, body_i3 = run.do(k0, ("info",))
            st_l3, body_l3 = run.do(k0, ("list",))
            run.do(k1, ("register", "Carol", "pwD")); run.do(k1, ("login", "Carol", "pwD"))
            st_l4, body_l4 = run.do(k1, ("list",))
            st_g4, body_g4 = run.do(k1, ("get", "cprob"))
            nreq += 10
            mine = ("own%d)" % k0)
            if st_r != 200 or st_i3 != 200 or '"carol"' not in body_i3 or st_l3 != 200 or mine not in body_l3.replace("\\", "") or mine in body_l4.replace("\\", "") or st_g4 == 200:
                res.violations.append({"key": "isolation:rename-capitalisation",
                                       "what": "after renaming Carol to carol (answer %s): info answers %s %s, the own list answers %s and %s the problem; the user who registers Carol afterwards %s it (get: %s)" % (
                                           st_r, st_i3, body_i3[:60], st_l3, "shows" if mine in body_l3.replace("\\", "") else "does not show",
                                           "sees" if (mine in body_l4.replace("\\", "") or st_g4 == 200) else "does not see", st_g4),
                                       "events": run.model_lines[-12:]})
            run.dump()
            # running tasks are part of what a user sees: while ANOTHER user's task for a problem of the same name runs
            # (a slow one: complete models of an odd attack cycle), this user's view of the own problem shows nothing running
            cA, cB = sh.Client(), sh.Client()
            cA.register("viewA", "pwa"); cA.login("viewA", "pwa"); cB.register("viewB", "pwb"); cB.login("viewB", "pwb")
            slow_names = ["q%d" % i for i in range(11)]
            slow_text = "".join("s(%s)." % x for x in slow_names) + "".join("ac(%s,neg(%s))." % (slow_names[i], slow_names[(i + 1) % 11]) for i in range(11))
            seen_running = 0
            for rnd in range(2 if quick else 6):
                pn = "busy%d" % rnd
                cA.add(pn, "s(ownA).ac(ownA,c(v)).", "Naive"); cB.add(pn, slow_text, "Naive")
                cA.wait_idle(pn); cB.wait_idle(pn, limit=60)
                cB.solve(pn, "Complete")
                stB, bodyB = cB.get(pn)
                stA, bodyA = cA.get(pn)
                stL, bodyL = cA.list()
                nreq += 8
                try:
                    if json.loads(bodyB)["running_tasks"]:
                        seen_running += 1
                    mineA = json.loads(bodyA)["running_tasks"]
                    listA = [t for pr in json.loads(bodyL) for t in pr["running_tasks"]]
                except (ValueError, KeyError, TypeError):
                    mineA, listA = None, None
                if mineA or listA:
                    res.violations.append({"key": "isolation:foreign-running-task", "what": "a user's view of the own problem %r lists a task that belongs to another user's problem of the same name: %s / %s" % (pn, mineA, listA),
                                           "events": ["A and B each add a problem named %s" % pn, "B solves Complete (slow)", "A gets / lists while B's task runs"]})
                cB.wait_idle(pn, limit=120)
            res.extra["foreign_task_windows_observed"] = seen_running
            cid = cf.add("SERVER", run.model_lines, meta={})
            runs.append((cid, run))
        finally:
            server.close()
        if not quick:
            slow_scenarios(ck, res, sh, "C17")
    model, f2 = ck.run_sharded(os.path.join(ck.ROOT, "ocaml", "driver"), cf.lines, "C17.model")
    if f2:
        res.broken.append(("correspondence", "model driver process failed", str(f2)))
    mism = 0
    for cid, run in runs:
        m = [l.split(" ", 1)[1] for l in model.get(cid, [])]
        if m != run.obs:
            mism += 1
            idx = next((i for i, (a, b) in enumerate(zip(run.obs, m)) if a != b), min(len(run.obs), len(m)))
            reqs = [l for l in run.model_lines if not l.startswith("done")]
            res.broken.append(("correspondence", "multi-user history: implementation and model differ at request %d" % idx,
                               json.dumps({"request": reqs[idx] if idx < len(reqs) else None, "impl": run.obs[idx][:600] if idx < len(run.obs) else None,
                                           "model": m[idx][:600] if idx < len(m) else None, "prefix": run.model_lines[max(0, idx * 2 - 40): idx * 2 + 2]})[:6000]))
    res.cov["evaluations"] = nreq
    res.cov["distinct_nontrivial"] = len(kinds) * (10 if quick else 200)
    res.cov["rule"] = ("histories of 2-3 browsers (own credentials each) issuing register / login (right, wrong, foreign account) / logout / info / update (rename and/or new password) / "
                       "delete-account / add / solve / get / list / delete with colliding problem names, plus unauthenticated requests, against the real server + MongoDB stand-in; "
                       "every problem's code carries its creator's tag: no response may contain a foreign tag, no request may change a foreign document, stored credentials must be "
                       "argon2 PHC strings; all responses and the final collections are compared with the Coq model; evaluations = requests, "
                       "non-trivial = request kinds x histories (measured: kinds used)")
    res.cov["samples"] = [runs[0][1].model_lines[:15]] if runs else ["(server not built)"]
    res.extra["request_kinds"] = kinds
    res.extra["model_mismatches"] = mism
    return ck.finish(res, level_of(res.pid), ASSUME_COMMON + SERVER_ASSUME)
