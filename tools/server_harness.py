#!/usr/bin/env python3
"""Drives the real adf-bdd-server binary (built from /repo's working tree) over HTTP against the
in-process MongoDB stand-in (tools/mongo_stub.py).  The server binds 0.0.0.0:8080 (hard-coded), so
one instance at a time: a file lock serialises checks."""
import fcntl, http.client, json, os, socket, subprocess, sys, time, uuid

sys.path.insert(0, os.path.dirname(os.path.abspath(__file__)))
import mongo_stub  # noqa: E402

ROOT = os.path.dirname(os.path.dirname(os.path.abspath(__file__)))
REPO = os.environ.get("VERIF_REPO", "/repo")


def build_server(features=None, tag="server"):
    tdir = os.path.join(ROOT, "harness", "target-" + tag)
    cmd = ["cargo", "build", "--offline", "--quiet", "-p", "adf-bdd-server"]
    if features:
        cmd += ["--features", ",".join(features)]
    env = dict(os.environ)
    env.update({"CARGO_TARGET_DIR": tdir, "CARGO_NET_OFFLINE": "true", "RUSTFLAGS": "--cfg adf_obdd_verif"})
    import srcguard
    srcguard.source_guard(tdir, ["adf_bdd", "adf-bdd-server"], REPO, {"RUSTFLAGS": "--cfg adf_obdd_verif"})
    p = subprocess.run(cmd, cwd=REPO, env=env, stdout=subprocess.PIPE, stderr=subprocess.STDOUT, text=True, timeout=3000)
    if p.returncode != 0:
        return None, p.stdout[-3000:]
    return os.path.join(tdir, "debug", "adf-bdd-server"), ""


def free_port():
    s = socket.socket()
    s.bind(("127.0.0.1", 0))
    p = s.getsockname()[1]
    s.close()
    return p


class Server:
    def __init__(self, binary):
        os.makedirs(os.path.join(ROOT, "work"), exist_ok=True)
        self.lockf = open(os.path.join(ROOT, "work", "server.lock"), "w")
        fcntl.flock(self.lockf, fcntl.LOCK_EX)
        # wait until nobody listens on 8080
        for _ in range(100):
            s = socket.socket()
            r = s.connect_ex(("127.0.0.1", 8080))
            s.close()
            if r != 0:
                break
            time.sleep(0.2)
        self.port = free_port()
        self.stub = mongo_stub.Stub(self.port)
        cwd = os.path.join(ROOT, "work", "server-cwd")
        os.makedirs(os.path.join(cwd, "assets"), exist_ok=True)
        env = dict(os.environ)
        env.update({"MONGODB_URI": "mongodb://127.0.0.1:%d" % self.port, "RUST_LOG": "error"})
        self.log = open(os.path.join(ROOT, "work", "server.%d.log" % os.getpid()), "w")
        self.proc = subprocess.Popen([binary], cwd=cwd, env=env, stdout=self.log, stderr=subprocess.STDOUT)
        ok = False
        for _ in range(150):
            s = socket.socket()
            r = s.connect_ex(("127.0.0.1", 8080))
            s.close()
            if r == 0:
                ok = True
                break
            if self.proc.poll() is not None:
                break
            time.sleep(0.1)
        if not ok:
            self.close()
            raise RuntimeError("server did not start")

    def close(self):
        try:
            self.proc.kill()
            self.proc.wait(timeout=10)
        except Exception:
            pass
        self.stub.stop()
        try:
            self.log.close()
        except Exception:
            pass
        fcntl.flock(self.lockf, fcntl.LOCK_UN)
        self.lockf.close()

    def coll(self, name):
        with self.stub.lock:
            import copy
            return copy.deepcopy(self.stub.db.get(("adf-obdd", name), []))


class Client:
    """one browser: keeps the session cookie (marked Secure by the server, sent back manually)"""

    def __init__(self):
        self.cookie = None

    def request(self, method, path, body=None, headers=None, timeout=30):
        h = dict(headers or {})
        if self.cookie:
            h["Cookie"] = self.cookie
        conn = http.client.HTTPConnection("127.0.0.1", 8080, timeout=timeout)
        try:
            conn.request(method, path, body=body, headers=h)
            r = conn.getresponse()
            data = r.read().decode("utf8", "replace")
            for k, v in r.getheaders():
                if k.lower() == "set-cookie" and v.startswith("adf-obdd-service-auth="):
                    val = v.split(";", 1)[0]
                    self.cookie = None if val.endswith("=") else val
            return r.status, data
        finally:
            conn.close()

    def json(self, method, path, obj):
        return self.request(method, path, body=json.dumps(obj), headers={"Content-Type": "application/json"})

    def register(self, u, p): return self.json("POST", "/users/register", {"username": u, "password": p})
    def login(self, u, p): return self.json("POST", "/users/login", {"username": u, "password": p})
    def update(self, u, p): return self.json("PUT", "/users/update", {"username": u, "password": p})
    def logout(self): return self.request("DELETE", "/users/logout")
    def delete_account(self): return self.request("DELETE", "/users/delete")
    def info(self): return self.request("GET", "/users/info")

    def add(self, name, code, parsing):
        b = uuid.uuid4().hex
        parts = []
        for k, v in (("name", name), ("code", code), ("parsing", parsing)):
            parts.append("--%s\r\nContent-Disposition: form-data; name=\"%s\"\r\n\r\n%s\r\n" % (b, k, v))
        body = ("".join(parts) + "--%s--\r\n" % b).encode()
        return self.request("POST", "/adf/add", body=body, headers={"Content-Type": "multipart/form-data; boundary=" + b})

    def solve(self, name, strategy): return self.json("PUT", "/adf/%s/solve" % name, {"strategy": strategy})
    def get(self, name): return self.request("GET", "/adf/%s" % name)
    def list(self): return self.request("GET", "/adf/")
    def delete(self, name): return self.request("DELETE", "/adf/%s" % name)

    def wait_idle(self, name, limit=20.0):
        """polls until the problem has no running task (or the limit passes); returns the last body"""
        t0 = time.time()
        last = None
        while time.time() - t0 < limit:
            st, body = self.get(name)
            last = (st, body)
            if st != 200:
                return last
            try:
                j = json.loads(body)
            except ValueError:
                return last
            pending_parse = j["acs_per_strategy"]["parse_only"]["type"] == "None"
            if not j["running_tasks"] and not pending_parse:
                # the server removes the running entry inside the blocking task and writes the result in
                # the continuation: look again after a moment so that the answer returned is the settled one
                time.sleep(0.2)
                st, body = self.get(name)
                try:
                    j2 = json.loads(body) if st == 200 else None
                except ValueError:
                    j2 = None
                if j2 is None or not j2["running_tasks"]:
                    return (st, body)
                continue
            time.sleep(0.05)
        return last


if __name__ == "__main__":
    b, err = build_server()
    print(b, err[-300:])
    s = Server(b)
    try:
        c = Client()
        print(c.register("alice", "pw1"))
        print(c.login("alice", "pw1"))
        print(c.add("p1", "s(a).s(b).ac(a,neg(b)).ac(b,neg(a)).", "Naive"))
        print(c.wait_idle("p1")[0])
        print(c.solve("p1", "Stable"))
        st, body = c.wait_idle("p1")
        j = json.loads(body)
        print(st, j["acs_per_strategy"]["stable"]["type"], [x["ac"] for x in j["acs_per_strategy"]["stable"]["content"]], j["running_tasks"])
        print([u for u in s.coll("users")])
        print(s.stub.log[-5:])
    finally:
        s.close()
