#!/usr/bin/env python3
"""Rewrites the table of section 9.5 of DESIGN.md (between the seeds:begin / seeds:end markers) from seeded/*/meta.json."""
import glob, json, os

ROOT = os.path.dirname(os.path.dirname(os.path.abspath(__file__)))


def main():
    rows = []
    for d in sorted(glob.glob(os.path.join(ROOT, "seeded", "*"))):
        m = json.load(open(os.path.join(d, "meta.json")))
        summ = (m.get("summary") or "").replace("|", "/").replace("\n", " ")
        summ = summ[:230] + ("..." if len(summ) > 230 else "")
        own, c = m["property"], m["checks_run"]
        caught = [k + (" (obligation only)" if c[k]["no_failing_input"] else "") for k in m["caught_by"]]
        first = (c[own]["first"][0] if c.get(own) and c[own]["first"] else "").replace("|", "/")[:140]
        rows.append("| `%s` | %s | %s | %s |" % (os.path.basename(d), summ, ", ".join(caught) or "**none**", first))
    table = ("| seed | change | reported by (quick tier) | first replay of the property's own check |\n"
             "|------|--------|--------------------------|-------------------------------------------|\n" + "\n".join(rows))
    p = os.path.join(ROOT, "DESIGN.md")
    s = open(p).read()
    a, b = s.index("<!-- seeds:begin -->"), s.index("<!-- seeds:end -->")
    s = s[:a] + "<!-- seeds:begin -->\n" + table + "\n" + s[b:]
    open(p, "w").write(s)
    print(len(rows), "seeds")


if __name__ == "__main__":
    main()
