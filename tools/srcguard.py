#!/usr/bin/env python3
"""Keeps cargo builds honest about the sources they were compiled from (used by every build of /repo code)."""
import hashlib, os, subprocess

REPO = os.environ.get("VERIF_REPO", "/repo")


def sh(cmd, cwd=None, env=None, timeout=600):
    e = dict(os.environ); e["CARGO_NET_OFFLINE"] = "true"
    if env:
        e.update(env)
    p = subprocess.run(cmd, shell=True, cwd=cwd, env=e, stdout=subprocess.PIPE, stderr=subprocess.STDOUT, text=True, timeout=timeout)
    return p.returncode, p.stdout


def source_guard(tdir, packages, cwd, env=None):
    """cargo decides by modification times; a tree that is rewritten while a build runs (or restored to older
    contents) can leave a binary that does not match the sources.  The content hash of the workspace sources is
    kept beside each target directory; when it changes the workspace packages are cleaned there, so that the
    binary is always compiled from what /repo contains now."""
    h = hashlib.sha1()
    for sub in ("lib", "bin", "server"):
        base = os.path.join(REPO, sub)
        for dp, dn, fn in sorted(os.walk(base)):
            dn[:] = sorted(d for d in dn if d not in ("target", "node_modules", ".git"))
            for f in sorted(fn):
                if f.endswith((".rs", ".toml", ".lock")):
                    pth = os.path.join(dp, f)
                    h.update(pth.encode()); h.update(open(pth, "rb").read())
    digest = h.hexdigest()
    os.makedirs(tdir, exist_ok=True)
    stamp = os.path.join(tdir, ".verif-srchash")
    old = open(stamp).read().strip() if os.path.exists(stamp) else None
    if old != digest:
        e = {"CARGO_TARGET_DIR": tdir}
        e.update(env or {})
        for pkg in packages:
            sh("cargo clean --offline -p %s" % pkg, cwd=cwd, env=e, timeout=600)
        open(stamp, "w").write(digest)


