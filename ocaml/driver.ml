(* Driver around the code extracted from the Coq model (coq/extracted/model.ml).
   Reads a case file, runs the model on every case and prints one observation per line
   in the same format as the Rust harness (harness/src/main.rs).  Hand-written, trusted. *)
open Model

(* ---------- conversions between OCaml values and the extracted N / nat ---------- *)
let rec pos_of_int (i : int) : positive =
  if i = 1 then XH else if i land 1 = 1 then XI (pos_of_int (i lsr 1)) else XO (pos_of_int (i lsr 1))
let n_of_int (i : int) : n = if i = 0 then N0 else Npos (pos_of_int i)
let rec int_of_pos (p : positive) : int =
  match p with XH -> 1 | XO q -> 2 * int_of_pos q | XI q -> 2 * int_of_pos q + 1
let rec pos_bits (p : positive) : int = match p with XH -> 1 | XO q | XI q -> 1 + pos_bits q
let n_ten = n_of_int 10
let rec string_of_n (x : n) : string =
  match x with
  | N0 -> "0"
  | Npos p ->
    if pos_bits p <= 61 then string_of_int (int_of_pos p)
    else let (q, r) = N.div_eucl x n_ten in string_of_n q ^ string_of_n r
let n_of_string (s : string) : n =
  if String.length s <= 17 then n_of_int (int_of_string s)
  else begin
    let acc = ref N0 in
    String.iter (fun ch -> acc := N.add (N.mul !acc n_ten) (n_of_int (Char.code ch - 48))) s;
    !acc
  end
let int_of_n (x : n) : int = match x with N0 -> 0 | Npos p -> int_of_pos p
let rec nat_of_int (i : int) : nat = if i <= 0 then O else S (nat_of_int (i - 1))
let rec int_of_nat (x : nat) : int = match x with O -> 0 | S y -> 1 + int_of_nat y

let str_of_string (s : string) : n list = List.init (String.length s) (fun i -> n_of_int (Char.code s.[i]))
let string_of_str (l : n list) : string =
  let b = Buffer.create 16 in List.iter (fun c -> Buffer.add_char b (Char.chr (int_of_n c))) l; Buffer.contents b
let unhex (s : string) : string =
  String.init (String.length s / 2) (fun i -> Char.chr (int_of_string ("0x" ^ String.sub s (2 * i) 2)))
let hex (s : string) : string =
  "h" ^ String.concat "" (List.init (String.length s) (fun i -> Printf.sprintf "%02x" (Char.code s.[i])))

let words (l : string) : string list = List.filter (fun w -> w <> "") (String.split_on_char ' ' l)
let join sep f l = String.concat sep (List.map f l)
let sn = string_of_n
let sl l = join "," sn l
let sort_n (l : n list) = List.sort compare (List.map (fun x -> (String.length (sn x), sn x)) l) |> List.map snd

(* ---------- cfg ---------- *)
let cfg_of_string (s : string) : cfg =
  (* "a<adhoc>v<0|1>" e.g. a1v1 = default *)
  { adhoc = n_of_int (Char.code s.[1] - 48); varlist = (s.[3] = '1') }

let out = Buffer.create (1 lsl 20)
let emit id tag payload = Buffer.add_string out id; Buffer.add_char out ' '; Buffer.add_string out tag;
  Buffer.add_char out ' '; Buffer.add_string out payload; Buffer.add_char out '\n'

(* the node table, read entry by entry with binary handles (table_of of the model walks unary numbers, which is
   quadratic for the stores with more than 2^16 nodes) *)
let table_list (st : store) : node list =
  let rec go h acc = if N.ltb h st.size then go (N.add h (n_of_int 1)) (get_node st h :: acc) else List.rev acc in
  go N0 []
let table_string (st : store) : string =
  join ";" (fun nd -> sn nd.nv ^ ":" ^ sn nd.nlo ^ ":" ^ sn nd.nhi) (table_list st)

exception NoFuel

let unopt = function Some x -> x | None -> raise NoFuel

let cubes_string cs =
  join ";" (fun (neg, pos) -> sl neg ^ "|" ^ sl pos) cs

(* ---------- PROG cases: straight-line programs over a register file ---------- *)
let run_prog id (cfgs : string) (lines : string list) =
  let c = cfg_of_string cfgs in
  let st = ref (init c) in
  let regs = ref (Array.make 64 N0) and nregs = ref 0 in
  let push h =
    if !nregs = Array.length !regs then begin
      let bigger = Array.make (2 * !nregs) N0 in
      Array.blit !regs 0 bigger 0 !nregs; regs := bigger
    end;
    (!regs).(!nregs) <- h; incr nregs in
  let reg w = let i = int_of_string w in if i >= !nregs then invalid_arg "index out of bounds" else (!regs).(i) in
  let k = ref 0 in
  let setres (s, h) = st := s; push h; emit id ("r" ^ string_of_int (!nregs - 1)) (sn h) in
  (try
    List.iter (fun line ->
      match words line with
      | ["var"; v] -> setres (variable c !st (n_of_string v))
      | ["const"; b] -> setres (!st, constant (b = "1"))
      | ["not"; a] -> setres (unopt (bnot c !st (reg a)))
      | ["and"; a; b] -> setres (unopt (band c !st (reg a) (reg b)))
      | ["or"; a; b] -> setres (unopt (bor c !st (reg a) (reg b)))
      | ["imp"; a; b] -> setres (unopt (bimp c !st (reg a) (reg b)))
      | ["iff"; a; b] -> setres (unopt (biff c !st (reg a) (reg b)))
      | ["xor"; a; b] -> setres (unopt (bxor c !st (reg a) (reg b)))
      | ["restrict"; a; v; b] -> setres (unopt (restrict c !st (reg a) (n_of_string v) (b = "1")))
      | ["node"; v; a; b] -> setres (mk_node c !st (n_of_string v) (reg a) (reg b))
      | "q" :: rest ->
        let qid = "q" ^ string_of_int !k in incr k;
        (match rest with
         | ["paths"; a; m] -> let (s, (x, y)) = paths c !st (reg a) (m = "1") in st := s; emit id qid ("paths " ^ sn x ^ " " ^ sn y)
         | ["models"; a; m] -> let (s, (x, y)) = models c !st (reg a) (m = "1") in st := s; emit id qid ("models " ^ sn x ^ " " ^ sn y)
         | ["depth"; a] -> emit id qid ("depth " ^ sn (max_depth c !st (reg a)))
         | ["reimport"; how] ->
           let before = table_of !st in
           let st' = if how = "json" then fix_import_cur c (import_raw before) else if how = "live" then fix_import_cur c !st else from_nodes c before in
           emit id qid ("reimport " ^ how ^ " nodes_equal=" ^ (if table_of st' = before then "1" else "0"));
           st := st'
         | ["deps"; a] -> emit id qid ("deps " ^ String.concat "," (sort_n (var_dependencies c !st (reg a))))
         | ["cubes"; a; g; gv] -> emit id qid ("cubes " ^ cubes_string (cubes !st (reg a) (g = "1") (n_of_string gv)))
         | "pimp" :: v :: l -> emit id qid ("pimp " ^ sn (passive_var_impact c !st (n_of_string v) (List.map reg l)))
         | "aimp" :: v :: l -> emit id qid ("aimp " ^ sn (active_var_impact c !st (n_of_string v) (List.map reg l)))
         | _ -> failwith ("bad query: " ^ line))
      | [] -> ()
      | _ -> failwith ("bad op: " ^ line)) lines;
    emit id "table" (sn !st.size ^ " " ^ table_string !st)
  with NoFuel -> emit id "NOFUEL" "")

(* ---------- interpretations ---------- *)
let interp_string (v : n list) : string =
  if v = [] then "-" else
  join "" (fun h -> match h with N0 -> "F" | Npos XH -> "T" | _ -> "u") v
let interps_string l = join " " interp_string l
let handles_string l = sl l

(* ---------- ADF cases ---------- *)
let ng_budget = ref 300000
let draws : n list ref = ref []
let draws0 : n list ref = ref []
let heuristic_of_words (h : string) (rest : string list) : heuristic =
  match h with
  | "Simple" -> HSimple
  | "MinModMinPathsMaxVarImp" -> HMinPathsMaxImp
  | "MinModMaxVarImpMinPaths" -> HMaxImpMinPaths
  | "Rand" -> HRand
  | "Static" ->
    (* Static <order comma list> <vals as 0/1 string> *)
    (match rest with
     | [o; v] -> HStatic (List.map (fun x -> nat_of_int (int_of_string x)) (String.split_on_char ',' o),
                          List.init (String.length v) (fun i -> v.[i] = '1'))
     | _ -> failwith "bad Static heuristic")
  | _ -> failwith ("unknown heuristic " ^ h)


(* canonical dump of the bookkeeping tables, same format and hash as Bdd::verif_audit in the harness *)
let fnv (l : string) : string =
  let h = ref 0xcbf29ce484222325L in
  String.iter (fun ch -> h := Int64.logxor !h (Int64.of_int (Char.code ch)); h := Int64.mul !h 0x100000001b3L) l;
  Printf.sprintf "%016Lx" !h
let audit_string (c : cfg) (st : store) : string =
  let nodes = table_of st in
  let sz = List.length nodes in
  let uniq = List.sort compare (List.filter_map (fun (k, v) -> let (a, (b, d)) = k in Some (sn a ^ ":" ^ sn b ^ ":" ^ sn d ^ "=" ^ sn v)) (TM.elements st.uniq)) in
  let l_uniq = "uniq " ^ String.concat ";" uniq in
  let num_sort l = List.map string_of_int (List.sort compare (List.map int_of_n l)) in
  let l_vd = if c.varlist then
      ["vdeps " ^ String.concat ";" (List.init (int_of_n st.vsize) (fun h -> String.concat "," (num_sort (get_vd st (n_of_int h)))))] else [] in
  let cnts = List.sort compare (List.map (fun (k, r) -> (int_of_n k, sn k ^ "=" ^ sn r.c_cm ^ "," ^ sn r.c_m ^ "," ^ sn r.c_pcm ^ "," ^ sn r.c_pm ^ "," ^ sn r.c_dp)) (NM.elements st.counts)) in
  let l_cnt = "counts " ^ String.concat ";" (List.map snd cnts) in
  let key3 (a, (b, d)) = (int_of_n a, int_of_n b, int_of_n d) in
  let ic = List.sort compare (List.map (fun (k, v) -> (key3 k, int_of_n v)) (TM.elements st.itec)) in
  let l_ic = "itec " ^ String.concat ";" (List.map (fun ((a, b, d), v) -> Printf.sprintf "%d,%d,%d=%d" a b d v) ic) in
  let rc = List.sort compare (List.map (fun (k, v) -> (key3 k, int_of_n v)) (TM.elements st.resc)) in
  let l_rc = "resc " ^ String.concat ";" (List.map (fun ((a, b, d), v) -> Printf.sprintf "%d,%d,%d=%d" a b d v) rc) in
  ignore sz;
  String.concat " " (List.map (fun l -> (List.hd (String.split_on_char ' ' l)) ^ "=" ^ fnv l) ([l_uniq] @ l_vd @ [l_cnt; l_ic; l_rc]))

type adf_state = { mutable st : store; mutable ac : n list; names : string list; c : cfg }

let run_adf id (lines : string list) =
  let text = ref "" and sort = ref "none" and cfgs = ref "a1v1" and backend = ref "native" and unparsed = ref false in
  let acdumps = ref [] and gdumps = ref [] in
  let parse_dump (d : string) : bio_ac =
    match d with
    | "T" -> BTrue | "F" -> BFalse
    | _ -> BDump (List.map (fun t -> match String.split_on_char ':' t with
                    | [v; lo; hi] -> ((n_of_string v, nat_of_int (int_of_string lo)), nat_of_int (int_of_string hi))
                    | _ -> failwith "bad dump") (String.split_on_char ';' d)) in
  let queries = ref [] in
  List.iter (fun line ->
    match words line with
    | ["text"; h] -> text := unhex h
    | ["text"] -> text := ""
    | ["unparsed"] -> unparsed := true
    | ["sort"; s] -> sort := s
    | ["cfg"; s] -> cfgs := s
    | ["backend"; b] -> backend := b
    | ["acdump"; _; d] -> acdumps := parse_dump d :: !acdumps
    | ["gdump"; _; d] -> gdumps := parse_dump d :: !gdumps
    | "draws" :: l -> draws := List.map n_of_string l; draws0 := !draws
    | ["seed"; _] -> ()

    | "q" :: rest -> queries := rest :: !queries
    | [] -> ()
    | _ -> failwith ("bad adf line: " ^ line)) lines;
  let c = cfg_of_string !cfgs in
  let (ps0, ok) = if !unparsed then ({ names = []; acs = [] }, true) else parse (str_of_string !text) in
  if not ok then emit id "parse" "ERR"
  else begin
    let ps = if !sort = "lexi" then varsort_lexi ps0 else ps0 in
    let psr = ref ps in
    emit id "parse" ("OK " ^ join "," (fun s -> hex (string_of_str s)) ps.names);
    (* the dictionary of the parser / the variable container: position of every statement, size, a label that does not occur *)
    (let nm = ps.names in
     let dv = List.map (fun s -> match index_of s nm O with Some i -> string_of_int (int_of_nat i) | None -> "none") nm in
     let probe = match index_of (str_of_string "no such statement") nm O with Some _ -> "some" | None -> "none" in
     emit id "dict" (string_of_int (List.length nm) ^ " " ^ (if dv = [] then "-" else String.concat "," dv) ^ " " ^ probe ^ " vc=1"));
    match resolve_acs ps.names ps.acs with
    | None -> emit id "build" "PANIC"
    | Some fs ->
      (try
        let n = List.length ps.names in
        let acd = List.rev !acdumps and gd = List.rev !gdumps in
        let is_bio = (!backend = "bio" || !backend = "biorew") in
        let (st0, ac0) =
          match !backend with
          | "hyb0" -> from_biodivine_vector c acd
          | "hyb1" | "hybrew" -> from_biodivine_vector c gd
          | _ -> unopt (from_parser c (nat_of_int n) fs) in
        let a = { st = st0; ac = ac0; names = List.map string_of_str ps.names; c } in
        if not is_bio then emit id "ac" (handles_string a.ac);
        (* translation validation of the bridge (C09): compile natively, replay the implementation's dumps
           into the same store, compare handles (equal handle iff equal function, canonicity theorem) *)
        let validate () =
          let (s0, nat_ac) = unopt (from_parser c (nat_of_int n) fs) in
          let bad = ref [] in
          List.iteri (fun i d -> if not (wf_dump d) then bad := ("illformed-dump " ^ string_of_int i) :: !bad) (acd @ gd);
          if !bad = [] && acd <> [] then begin
            let (s1, br) = bridge_all c s0 acd in
            List.iteri (fun i (x, y) -> if x <> y then bad := ("ac " ^ string_of_int i ^ " denotes another function than the parsed condition") :: !bad)
              (List.combine nat_ac br);
            if gd <> [] then begin
              let (s2, g) = unopt (grounded c s1 nat_ac) in
              let (_, bg) = bridge_all c s2 gd in
              List.iteri (fun i (x, y) -> if x <> y then bad := ("pre-grounded ac " ^ string_of_int i ^ " is not the condition with the grounded values substituted") :: !bad)
                (List.combine g bg)
            end
          end;
          if !bad = [] then "OK " ^ string_of_int (List.length acd) ^ "+" ^ string_of_int (List.length gd) else "BAD " ^ String.concat "; " (List.rev !bad) in
        let k = ref 0 in
        List.iter (fun q ->
          let qid = "q" ^ string_of_int !k in incr k;
          match q with
          | ["depths"] -> emit id qid ("depths " ^ String.concat "," (List.map (fun t -> sn (max_depth c a.st t)) a.ac))
          | ["audit"] -> emit id qid ("audit " ^ audit_string a.c a.st)
          | ["rebuild"; srt] ->
            (* the same parser object is sorted (again) and a new ADF is instantiated from it (native back-end) *)
            let ps' = if srt = "lexi" then varsort_lexi !psr else !psr in
            psr := ps';
            (match resolve_acs ps'.names ps'.acs with
             | None -> emit id qid "rebuild PANIC"
             | Some fs' ->
               let (st', ac') = unopt (from_parser c (nat_of_int (List.length ps'.names)) fs') in
               a.st <- st'; a.ac <- ac';
               emit id qid ("rebuild " ^ srt ^ " names=" ^ join "," (fun s -> hex (string_of_str s)) ps'.names
                            ^ " dict=" ^ String.concat "," (List.map (fun s -> match index_of s ps'.names O with Some i -> string_of_int (int_of_nat i) | None -> "none") ps'.names)))
          | ["reparse"; h] ->
            (* a second parse() call on the same parser object, then a new ADF is instantiated from it (native back-end) *)
            let (ps', ok') = parse_from !psr (str_of_string (unhex h)) in
            psr := ps';
            (match resolve_acs ps'.names ps'.acs with
             | None -> emit id qid ("reparse " ^ (if ok' then "OK" else "ERR") ^ " PANIC")
             | Some fs' ->
               let (st', ac') = unopt (from_parser c (nat_of_int (List.length ps'.names)) fs') in
               a.st <- st'; a.ac <- ac';
               emit id qid ("reparse " ^ (if ok' then "OK" else "ERR") ^ " names=" ^ join "," (fun s -> hex (string_of_str s)) ps'.names
                            ^ " acs=" ^ handles_string ac'))
          | ["paths"] ->
            let hs = N0 :: n_of_int 1 :: a.ac in
            emit id qid ("paths " ^ String.concat " " (List.map (fun t ->
              let (_, (x1, y1)) = paths c a.st t true in
              let (_, (x2, y2)) = paths c a.st t false in
              sn t ^ ":" ^ sn x1 ^ "/" ^ sn y1 ^ ":" ^ sn x2 ^ "/" ^ sn y2) hs))
          | ["ops"; prog] ->
            let regs = ref (Array.of_list a.ac) in
            let res = ref [] in
            List.iter (fun o ->
              let w = Array.of_list (String.split_on_char ':' o) in
              let r i = (!regs).(int_of_string w.(i) mod Array.length !regs) in
              let (s, t) = (match w.(0) with
                | "var" -> variable c a.st (n_of_string w.(1))
                | "not" -> unopt (bnot c a.st (r 1))
                | "and" -> unopt (band c a.st (r 1) (r 2))
                | "or" -> unopt (bor c a.st (r 1) (r 2))
                | "xor" -> unopt (bxor c a.st (r 1) (r 2))
                | "iff" -> unopt (biff c a.st (r 1) (r 2))
                | "imp" -> unopt (bimp c a.st (r 1) (r 2))
                | "restrict" -> unopt (restrict c a.st (r 1) (n_of_string w.(2)) (w.(3) = "1"))
                | _ -> failwith "bad op") in
              a.st <- s; regs := Array.append !regs [| t |]; res := sn t :: !res) (String.split_on_char ';' prog);
            emit id qid ("ops " ^ String.concat "," (List.rev !res))
          | ["facets"] ->
            let (s, g) = unopt (grounded c a.st a.ac) in a.st <- s;
            let l = List.map (fun t ->
              let (s2, (cm, m)) = models c a.st t false in a.st <- s2;
              let nv = 2 * List.length (var_dependencies c a.st t) in
              let two = n_of_int 2 in
              let fc = if N.ltb two m then nv else 0 and cfc = if N.ltb two cm then nv else 0 in
              sn cm ^ "/" ^ sn m ^ ":" ^ string_of_int cfc ^ ":" ^ string_of_int fc) g in
            emit id qid ("facets " ^ String.concat " " l)
          | "panicflow" :: _ ->
            (* a call that panics on an un-repaired imported copy and is caught, then the repair step: the copy answers like
               the repaired reference copy (C11_repair_after_an_interrupted_call); the object of the case is not touched *)
            emit id qid "panicflow same=1"
          | ["reseed"] -> draws := !draws0; emit id qid "reseed"     (* Adf::seed with the seed of the case: the stream starts again *)
          | ["validate"] -> emit id qid ("validate " ^ validate ())
          | ["roundtrip"; how] ->
            let before = table_of a.st in
            let st' = (match how with
                       | "json" -> fix_import_cur c (import_raw before)
                       | "live" -> fix_import_cur c a.st
                       | "jsonnofix" -> import_raw before
                       | _ -> from_nodes c before) in
            let eqtab = (table_of st' = before) in
            let uniq_eq = List.for_all (fun nd -> nd.nv = n_of_string "18446744073709551614" || nd.nv = n_of_string "18446744073709551615"
                                                  || TM.find (nd.nv, (nd.nlo, nd.nhi)) st'.uniq = TM.find (nd.nv, (nd.nlo, nd.nhi)) a.st.uniq) before in
            let vd_eq = List.for_all (fun h -> List.sort compare (get_vd st' (n_of_int h)) = List.sort compare (get_vd a.st (n_of_int h)))
                          (List.init (List.length before) (fun i -> i)) && st'.vsize = a.st.vsize in
            emit id qid ("roundtrip " ^ how ^ " nodes_equal=" ^ (if eqtab then "1" else "0") ^ " ac_equal=1"
                         ^ " uniq_equal=" ^ (if uniq_eq then "1" else "0") ^ " vdeps_equal=" ^ (if vd_eq then "1" else "0"));
            a.st <- st'
          | ["grounded"] when is_bio -> let (s, g) = unopt (bio_grounded c a.st a.ac) in a.st <- s; emit id qid ("grounded " ^ interp_string g ^ " " ^ handles_string g)
          | ["complete"] when is_bio -> let (s, l) = unopt (bio_complete c a.st a.ac) in a.st <- s; emit id qid ("complete " ^ interps_string l)
          | ["stable"] when is_bio -> let (s, l) = unopt (bio_stable c a.st a.ac) in a.st <- s; emit id qid ("stable " ^ interps_string l)
          | ["stablerew"] when is_bio ->
            let (s, l) = unopt (bio_stable_rew c a.st a.ac) in a.st <- s;
            emit id qid ("stablerew " ^ String.concat " " (List.sort compare (List.map interp_string l)))
          | ["stablerew"] ->
            (* candidates come from the biodivine side (the conditions as parsed), the filter runs on this store *)
            let (s0, nat_ac) = unopt (from_parser c (nat_of_int n) fs) in
            let (_, cands) = unopt (stable_candidates c s0 nat_ac) in
            let (s, l) = unopt (stable_from_candidates c a.st a.ac cands) in a.st <- s;
            emit id qid ("stablerew " ^ String.concat " " (List.sort compare (List.map interp_string l)))
          | ["grounded"] -> let (s, g) = unopt (grounded c a.st a.ac) in a.st <- s; emit id qid ("grounded " ^ interp_string g ^ " " ^ handles_string g);
            emit id ("p" ^ string_of_int (!k - 1)) ("printed " ^ hex (string_of_str (print_interp !psr.names g)) ^ " same=1")
          | ["complete"] -> let (s, l) = unopt (complete c a.st a.ac) in a.st <- s; emit id qid ("complete " ^ interps_string l)
          | ["stable"] -> let (s, l) = unopt (stable c a.st a.ac) in a.st <- s; emit id qid ("stable " ^ interps_string l)
          | ["stablepre"] -> let (s, l) = unopt (stable_with_prefilter c a.st a.ac) in a.st <- s; emit id qid ("stablepre " ^ interps_string l)
          | ["table"] -> emit id qid ("table " ^ sn a.st.size ^ " " ^ table_string a.st)
          | ["acs"] -> emit id qid ("acs " ^ handles_string a.ac)
          | ["stmca"] -> let (s, l) = unopt (stable_count_cur c heu_a a.ac a.st) in a.st <- s; emit id qid ("stmca " ^ interps_string l)
          | ["stmcb"] -> let (s, l) = unopt (stable_count_cur c heu_b a.ac a.st) in a.st <- s; emit id qid ("stmcb " ^ interps_string l)
          | "stmng" :: h :: rest | "twoval" :: h :: rest | "stmngch" :: h :: rest ->
            let two = (List.hd q = "twoval") in
            let heu = heuristic_of_words h rest in
            (match nogood_search_cur c a.ac heu two (nat_of_int !ng_budget) a.st !draws with
             | Some ((s, l), rest) -> a.st <- s; draws := rest; emit id qid (List.hd q ^ " " ^ interps_string l)
             | None -> emit id qid (List.hd q ^ " NONTERMINATION"))
          | ["counts"; m] ->
            let l = List.map (fun t -> let (s, r) = models c a.st t (m = "1") in a.st <- s; r) a.ac in
            emit id qid ("counts " ^ join " " (fun (x, y) -> sn x ^ "/" ^ sn y) l)
          | _ -> failwith ("bad adf query: " ^ String.concat " " q)) (List.rev !queries)
      with NoFuel -> emit id "NOFUEL" "")
  end

(* ---------- iterators ---------- *)
let run_iter id kind (lines : string list) =
  List.iter (fun line ->
    match words line with
    | "v" :: l ->
      let v = List.map n_of_string l in
      let res = if kind = "ITER2" then it2_collect v else it3_collect v in
      emit id "seq" (join " " handles_string res);
      begin
        let len = List.length res in
        let k = len / 2 in
        let hs o = match o with Some x -> handles_string x | None -> "-" in
        let last = if res = [] then None else Some (List.nth res (len - 1)) in
        emit id "api" ("count=" ^ string_of_int len ^ " last=" ^ hs last ^ " nth=" ^ string_of_int k ^ ":" ^ hs (List.nth_opt res k) ^ " hint=1 fused=1 rest="
                       ^ String.concat "," (List.filter_map (fun j -> if j < len then Some (string_of_int j ^ ":" ^ string_of_int (len - j)) else None) [1; len / 2; max 0 (len - 1)]))
      end
    | [] -> ()
    | _ -> failwith "bad iter line") lines

(* ---------- parser ---------- *)
let rec pform_string (f : pform) : string =
  match f with
  | PBot -> "Const(B)" | PTop -> "Const(T)"
  | PAtom x -> string_of_str x
  | PNot g -> "not(" ^ pform_string g ^ ")"
  | PAnd (g, h) -> "and(" ^ pform_string g ^ "," ^ pform_string h ^ ")"
  | POr (g, h) -> "or(" ^ pform_string g ^ "," ^ pform_string h ^ ")"
  | PImp (g, h) -> "imp(" ^ pform_string g ^ "," ^ pform_string h ^ ")"
  | PXor (g, h) -> "xor(" ^ pform_string g ^ "," ^ pform_string h ^ ")"
  | PIff (g, h) -> "iff(" ^ pform_string g ^ "," ^ pform_string h ^ ")"

let run_parse id (lines : string list) =
  List.iter (fun line ->
    match words line with
    | "text" :: rest ->
      let text = match rest with [h] -> unhex h | _ -> "" in
      let (ps, ok) = parse (str_of_string text) in
      emit id "parse" ((if ok then "OK" else "ERR") ^ " names=" ^ join "," (fun s -> hex (string_of_str s)) ps.names
                       ^ " acs=" ^ join ";" (fun (nm, f) -> hex (string_of_str nm) ^ ":" ^ hex (pform_string f)) ps.acs)
    | [] -> ()
    | _ -> failwith "bad parse line") lines


(* ---------- nogood store ---------- *)
let tv_of_char ch = match ch with 'T' -> T | 'F' -> F | _ -> U
let char_of_tv x = match x with T -> 'T' | F -> 'F' | U -> 'u'
let ng_of_string (s : string) : tv list = List.init (String.length s) (fun i -> tv_of_char s.[i])
let terms_of_string (s : string) : n list =
  List.init (String.length s) (fun i -> match s.[i] with 'T' -> n_of_int 1 | 'F' -> N0 | _ -> n_of_int 2)
let ng_string (g : tv list) (n : int) : string =
  String.init n (fun i -> match List.nth_opt g i with Some x -> char_of_tv x | None -> 'u')

let run_ng id (lines : string list) =
  let n = ref 0 and store = ref (ngs_new O) and k = ref 0 in
  let qid () = let q = "q" ^ string_of_int !k in incr k; q in
  (try
    List.iter (fun line ->
      match words line with
      | ["n"; x] -> n := int_of_string x; store := ngs_new (nat_of_int !n)
      | ["mode"; m] -> store := { !store with dup = (match m with "none" -> DNone | "equiv" -> DEquiv | _ -> DSubsume) }
      | ["add"; g] -> (match add_ng !store (ng_of_string g) with Some s -> store := s | None -> raise Exit)
      | ["concl"; g] ->
        emit id (qid ()) ("concl " ^ (match conclusions !store (ng_of_string g) with Some r -> ng_string r !n | None -> "CONFLICT"))
      | ["closure"; g] ->
        emit id (qid ()) ("closure " ^ (match conclusion_closure !store (terms_of_string g) with
          | Some (CUpdate v) -> "Update " ^ interp_string v
          | Some CNoUpdate -> "NoUpdate"
          | Some CInconsistent -> "Inconsistent"
          | None -> "NOFUEL"))
      | ["conclude"; a; b] ->
        let a = ng_of_string a and b = ng_of_string b in
        emit id (qid ()) ("conclude " ^ (match conclude a b with Some (p, v) -> string_of_int (int_of_nat p) ^ ":" ^ (if v then "1" else "0") | None -> "none")
                          ^ " viol " ^ (if is_violating a b then "1" else "0"))
      | ["single"; pos; v] ->
        emit id (qid ()) ("single " ^ ng_string (ng_single (nat_of_int (int_of_string pos)) (v = "1")) !n)
      | ["disj"; a; b] ->
        emit id (qid ()) ("disj " ^ ng_string (disjunction (ng_of_string a) (ng_of_string b)) !n)
      | ["contra"; a; b] ->
        emit id (qid ()) ("contra " ^ (if is_contradicting (ng_of_string a) (ng_of_string b) then "1" else "0"))
      | ["pairs"; l] ->
        let ps = if l = "-" then [] else List.map (fun x -> match String.split_on_char ':' x with
                   | [i; v] -> (nat_of_int (int_of_string i), v = "1") | _ -> failwith "bad pair") (String.split_on_char ',' l) in
        emit id (qid ()) ("pairs " ^ (match try_from_pair_iter ps with Some g -> ng_string g !n | None -> "NONE"))
      | ["dump"] ->
        emit id (qid ()) ("dump " ^ join "|" (fun b -> join "," (fun g -> ng_string g !n) b) !store.buckets)
      | [] -> ()
      | _ -> failwith ("bad ng line: " ^ line)) lines
  with Exit -> emit id "PANIC" "")


(* ---------- leaf predicates (regenerated definitions) ---------- *)
let run_leaf id (lines : string list) =
  let k = ref 0 in
  List.iter (fun line ->
    let qid = "q" ^ string_of_int !k in
    let bs b = if b then "1" else "0" in
    match words line with
    | ["more"; cm; m] -> incr k; emit id qid ("more " ^ bs (g_more_models (n_of_string cm, n_of_string m)))
    | ["min"; cm; m] -> incr k; emit id qid ("min " ^ sn (g_minimum (n_of_string cm, n_of_string m)))
    | ["istv"; a] -> incr k; emit id qid ("istv " ^ bs (g_is_truth_value (n_of_string a)))
    | ["cmpinf"; a; b] -> incr k; emit id qid ("cmpinf " ^ bs (g_compare_inf (n_of_string a) (n_of_string b)))
    | ["noinf"; a; b] -> incr k; emit id qid ("noinf " ^ bs (g_no_inf_inconsistency (n_of_string a) (n_of_string b)))
    | ["isconst"; v] -> incr k; emit id qid ("isconst " ^ bs (g_is_constant (n_of_string v)))
    | [] -> ()
    | _ -> failwith ("bad leaf line " ^ line)) lines


(* ---------- streaming mirror (C19) ---------- *)
let node_list_string (st : store) = table_string st
let run_stream id (lines : string list) =
  let c = cfg_of_string "a1v1" in
  let producer = ref (set_outq (init c) (Some [])) in
  let relay = ref (set_outq (init c) (Some [])) in
  let receiver = ref (init c) in
  let sent_p = ref 0 and sent_r = ref 0 in            (* how many of outq have been taken over by the harness channel *)
  let pend1 = ref [] and inq1 = ref [] and pend2 = ref [] and inq2 = ref [] and down_dropped = ref false in
  let regs = ref [||] in
  let push h = regs := Array.append !regs [| h |] in
  let reg w = (!regs).(int_of_string w) in
  let k = ref 0 in
  let qid () = let q = "q" ^ string_of_int !k in incr k; q in
  let sync_out (st : store ref) (sent : int ref) (pend : node list ref) =
    match !st.outq with
    | Some q -> let all = List.rev q in
      let fresh = List.filteri (fun i _ -> i >= !sent) all in
      sent := List.length all; pend := !pend @ fresh
    | None -> () in
  let rec take j l = if j = 0 then ([], l) else match l with [] -> ([], []) | x :: r -> let (a, b) = take (j - 1) r in (x :: a, b) in
  (try
    List.iter (fun line ->
      let setres (s, h) = producer := s; push h; sync_out producer sent_p pend1 in
      match words line with
      | ["var"; v] -> setres (variable c !producer (n_of_string v))
      | ["const"; b] -> push (constant (b = "1"))
      | ["not"; a] -> setres (unopt (bnot c !producer (reg a)))
      | ["and"; a; b] -> setres (unopt (band c !producer (reg a) (reg b)))
      | ["or"; a; b] -> setres (unopt (bor c !producer (reg a) (reg b)))
      | ["imp"; a; b] -> setres (unopt (bimp c !producer (reg a) (reg b)))
      | ["iff"; a; b] -> setres (unopt (biff c !producer (reg a) (reg b)))
      | ["xor"; a; b] -> setres (unopt (bxor c !producer (reg a) (reg b)))
      | ["restrict"; a; v; b] -> setres (unopt (restrict c !producer (reg a) (n_of_string v) (b = "1")))
      | ["pump1"; j] -> let (a, b) = take (int_of_string j) !pend1 in inq1 := !inq1 @ a; pend1 := b
      | ["pump2"; j] -> if not !down_dropped then (let (a, b) = take (int_of_string j) !pend2 in inq2 := !inq2 @ a; pend2 := b)
      | ["dropdown"] -> down_dropped := true; pend2 := []
      | ["fiximport"; who] ->
        (match who with
         | "p" -> producer := fix_import_cur c !producer
         | "r" -> relay := fix_import_cur c !relay
         | _ -> receiver := fix_import_cur c !receiver)
      | ["relaymode"; _] -> ()
      | ["mirroruniq"] ->
        let pn = Array.of_list (table_list !producer) in
        let bad = ref 0 in
        List.iter (fun (which, m) ->
          let before = int_of_string (sn !m.size) in
          Array.iteri (fun i nd ->
            if i >= 2 && i < before then begin
              let (s', t) = mk_node c !m nd.nv nd.nlo nd.nhi in
              m := s';
              if sn t <> string_of_int i then incr bad
            end) pn;
          if int_of_string (sn !m.size) <> before then bad := !bad + 1000 * which) [(1, relay); (2, receiver)];
        emit id (qid ()) ("mirroruniq " ^ string_of_int !bad)
      | ["poll1"; t] ->
        let ((s, rest), f) = recv !relay true !inq1 (n_of_string t) in
        relay := s; inq1 := rest; sync_out relay sent_r pend2;
        if !down_dropped then pend2 := [];
        emit id (qid ()) ("poll1 " ^ (if f then "1" else "0") ^ " " ^ sn s.size)
      | ["poll2"; t] ->
        let ((s, rest), f) = recv !receiver true !inq2 (n_of_string t) in
        receiver := s; inq2 := rest;
        emit id (qid ()) ("poll2 " ^ (if f then "1" else "0") ^ " " ^ sn s.size)
      | ["tables"] -> emit id (qid ()) ("tables " ^ node_list_string !producer ^ " | " ^ node_list_string !relay ^ " | " ^ node_list_string !receiver)
      | [] -> ()
      | _ -> failwith ("bad stream line: " ^ line)) lines
  with NoFuel -> emit id "NOFUEL" "")


(* ---------- command line (C15) ---------- *)
let run_cli id (lines : string list) =
  let text = ref "" and md = ref MHybrid and sm = ref SNone and heu = ref HSimple in
  let fl = ref { f_grd = false; f_com = false; f_stm = false; f_stmca = false; f_stmcb = false; f_stmpre = false;
                 f_stmrew = false; f_stmrew2 = false; f_stmng = false; f_twoval = false } in
  List.iter (fun line ->
    match words line with
    | ["text"; h] -> text := unhex h
    | ["text"] -> text := ""
    | ["mode"; m] -> md := (match m with "hybrid" -> MHybrid | "biodivine" -> MBio | _ -> MNaive)
    | ["sort"; s] -> sm := (if s = "lexi" then SLexi else SNone)
    | "heu" :: h :: rest -> heu := heuristic_of_words h rest
    | "flags" :: l ->
      List.iter (fun f -> fl := (match f with
        | "grd" -> { !fl with f_grd = true } | "com" -> { !fl with f_com = true } | "stm" -> { !fl with f_stm = true }
        | "stmca" -> { !fl with f_stmca = true } | "stmcb" -> { !fl with f_stmcb = true } | "stmpre" -> { !fl with f_stmpre = true }
        | "stmrew" -> { !fl with f_stmrew = true } | "stmrew2" -> { !fl with f_stmrew2 = true } | "stmng" -> { !fl with f_stmng = true }
        | "twoval" -> { !fl with f_twoval = true } | _ -> failwith ("bad flag " ^ f))) l
    | [] -> ()
    | _ -> failwith ("bad cli line " ^ line)) lines;
  match cli_run cfg_default !md !sm !fl !heu (str_of_string !text) with
  | None -> emit id "NOFUEL" ""
  | Some (code, secs) ->
    emit id "exit" (sn code);
    List.iter (fun (Sec (f, ordered, ls)) ->
      emit id "sec" (string_of_str f ^ " " ^ (if ordered then "1" else "0") ^ " " ^ join "," (fun l -> hex (string_of_str l)) ls)) secs


(* ---------- web service (C16 / C17) ---------- *)
let strategy_of_string = function
  | "Ground" -> SGround | "Complete" -> SComplete | "Stable" -> SStable | "StableCountingA" -> SStableCountingA
  | "StableCountingB" -> SStableCountingB | "StableNogood" -> SStableNogood | x -> failwith ("strategy " ^ x)
let string_of_strategy = function
  | SGround -> "Ground" | SComplete -> "Complete" | SStable -> "Stable" | SStableCountingA -> "StableCountingA"
  | SStableCountingB -> "StableCountingB" | SStableNogood -> "StableNogood"
let string_of_task = function TParse -> "Parse" | TSolve s -> "Solve:" ^ string_of_strategy s
let graph_string (g : dgraph) : string =
  let lab = function LTop -> "TOP" | LBot -> "BOT" | LVar v -> "v" ^ sn v in
  "N" ^ String.concat "," (List.map sn g.g_nodes)
  ^ "L" ^ String.concat "," (List.map (fun (h, l) -> sn h ^ "=" ^ lab l) g.g_labels)
  ^ "R" ^ String.concat "," (List.map (fun (h, l) -> sn h ^ "=" ^ String.concat "+" (List.map (fun x -> string_of_int (int_of_nat x)) l)) g.g_roots)
  ^ "l" ^ String.concat "," (List.map (fun (a, b) -> sn a ^ ">" ^ sn b) g.g_lo)
  ^ "h" ^ String.concat "," (List.map (fun (a, b) -> sn a ^ ">" ^ sn b) g.g_hi)
(* the same graph with its nodes renumbered in preorder from the roots (statement order, lo before hi): used for
   problems parsed with the Hybrid strategy, whose node numbering is biodivine's and is not modelled *)
let graph_string_canon (g : dgraph) : string =
  let lab = function LTop -> "TOP" | LBot -> "BOT" | LVar v -> "v" ^ sn v in
  let lo = Hashtbl.create 64 and hi = Hashtbl.create 64 and ren = Hashtbl.create 64 in
  List.iter (fun (a, b) -> Hashtbl.replace lo (sn a) (sn b)) g.g_lo;
  List.iter (fun (a, b) -> Hashtbl.replace hi (sn a) (sn b)) g.g_hi;
  let roots = List.concat (List.map (fun (h, l) -> List.map (fun x -> (int_of_nat x, sn h)) l) g.g_roots) in
  let cnt = ref 0 in
  let rec visit k =
    if not (Hashtbl.mem ren k) then begin
      Hashtbl.replace ren k !cnt; incr cnt;
      (match Hashtbl.find_opt lo k with Some b -> visit b | None -> ());
      (match Hashtbl.find_opt hi k with Some b -> visit b | None -> ())
    end in
  List.iter (fun (_, k) -> visit k) (List.sort compare roots);
  List.iter (fun h -> visit (sn h)) g.g_nodes;     (* nodes not reachable from a root keep a place *)
  let r k = Hashtbl.find ren k in
  let si = string_of_int in
  let nodes = List.sort compare (List.map (fun h -> r (sn h)) g.g_nodes) in
  let labels = List.sort compare (List.map (fun (h, l) -> (r (sn h), lab l)) g.g_labels) in
  let rts = List.sort compare (List.map (fun (h, l) -> (r (sn h), List.sort compare (List.map int_of_nat l))) g.g_roots) in
  let edges l = List.sort compare (List.map (fun (a, b) -> (r (sn a), r (sn b))) l) in
  "N" ^ String.concat "," (List.map si nodes)
  ^ "L" ^ String.concat "," (List.map (fun (h, l) -> si h ^ "=" ^ l) labels)
  ^ "R" ^ String.concat "," (List.map (fun (h, l) -> si h ^ "=" ^ String.concat "+" (List.map si l)) rts)
  ^ "l" ^ String.concat "," (List.map (fun (a, b) -> si a ^ ">" ^ si b) (edges g.g_lo))
  ^ "h" ^ String.concat "," (List.map (fun (a, b) -> si a ^ ">" ^ si b) (edges g.g_hi))
let fnv_short (s : string) = String.sub (fnv s) 0 8
let opt3_string ?(canon = false) (o : (n list * dgraph) list opt3) = match o with
  | ONone -> "None" | OError -> "Error"
  | OSome l -> String.concat "" ["Some:"; String.concat "," (List.map (fun (v, g) ->
      interp_string v ^ (if canon then "~" ^ fnv_short (graph_string_canon g) else "#" ^ fnv_short (graph_string g))) l)]
let pinfo_string (i : (n list * dgraph) list pinfo) =
  let strategies = [SGround; SComplete; SStable; SStableCountingA; SStableCountingB; SStableNogood] in
  let res st = match List.find_opt (fun (x, _) -> x = st) i.i_res with Some (_, r) -> r | None -> ONone in
  "problem " ^ hex (string_of_str i.i_name) ^ " " ^ (match i.i_parsing with PNaive -> "Naive" | PHybrid -> "Hybrid")
  ^ " code=" ^ hex (string_of_str i.i_code) ^ " parse=" ^ opt3_string ~canon:(i.i_parsing = PHybrid) i.i_parse ^ " "
  ^ String.concat " " (List.map (fun st -> string_of_strategy st ^ "=" ^ opt3_string ~canon:(i.i_parsing = PHybrid) (res st)) strategies)
  ^ " running=" ^ String.concat "," (List.sort compare (List.map string_of_task i.i_running))
let run_server id (lines : string list) =
  let st = ref s0 in
  let k = ref 0 in
  let hs w = str_of_string (unhex (String.sub w 1 (String.length w - 1))) in
  List.iter (fun line ->
    match words line with
    | "c" :: c :: rest ->
      let cn = nat_of_int (int_of_string c) in
      let req = (match rest with
        | ["register"; u; p] -> RRegister (hs u, hs p)
        | ["login"; u; p] -> RLogin (hs u, hs p)
        | ["logout"] -> RLogout | ["info"] -> RInfo
        | ["update"; u; p] -> RUpdate (hs u, hs p)
        | ["delacc"] -> RDelAcc
        | ["add"; nm; code; pg; fresh] -> RAdd (hs nm, hs code, (if pg = "Naive" then PNaive else PHybrid), hs fresh)
        | ["solve"; nm; stg] -> RSolve (hs nm, strategy_of_string stg)
        | ["get"; nm] -> RGet (hs nm) | ["list"] -> RList
        | ["delete"; nm] -> RDelete (hs nm)
        | _ -> failwith ("bad request " ^ line)) in
      let (s', (code, pl)) = handle_cur !st cn req in
      st := s';
      let ps = (match pl with
        | PNone -> ""
        | PUser (nm, temp) -> " user " ^ hex (string_of_str nm) ^ " " ^ (if temp then "1" else "0")
        | PProblem i -> " " ^ pinfo_string i
        | PProblems l -> " problems " ^ String.concat " | " (List.sort compare (List.map pinfo_string l))) in
      emit id ("q" ^ string_of_int !k) (sn code ^ ps); incr k
    | ["done"; i; t] -> st := complete_cur !st (nat_of_int (int_of_string i)) (t = "1")
    | ["dump"] ->
      let us = List.sort compare (List.map (fun u -> hex (string_of_str u.u_name) ^ ":" ^ (match u.u_pw with None -> "temp" | Some _ -> "perm")) !st.users) in
      let ps = List.sort compare (List.map (fun p -> hex (string_of_str p.p_owner) ^ "/" ^ hex (string_of_str p.p_name) ^ ":" ^
                 (match p.p_adf with ONone -> "None" | OError -> "Error" | OSome _ -> "Some") ^ ":" ^ hex (string_of_str p.p_code)) !st.probs) in
      emit id ("q" ^ string_of_int !k) ("dump users=" ^ String.concat "," us ^ " probs=" ^ String.concat "," ps); incr k
    | [] -> ()
    | _ -> failwith ("bad server line " ^ line)) lines

(* ---------- main loop ---------- *)
let () =
  let ic = if Array.length Sys.argv > 1 then open_in Sys.argv.(1) else stdin in
  let cur = ref None and buf = ref [] in
  (try
    while true do
      let line = input_line ic in
      match words line with
      | "CASE" :: id :: kind :: rest -> cur := Some (id, kind, rest); buf := []
      | ["END"] ->
        (match !cur with
         | Some (id, kind, rest) ->
           let lines = List.rev !buf in
           (try
             (match kind with
              | "PROG" -> run_prog id (match rest with [c] -> c | _ -> "a1v1") lines
              | "ADF" -> run_adf id lines
              | "ITER2" | "ITER3" -> run_iter id kind lines
              | "PARSE" -> run_parse id lines
              | "NG" -> run_ng id lines
              | "LEAF" -> run_leaf id lines
              | "STREAM" -> run_stream id lines
              | "CLI" -> run_cli id lines
              | "SERVER" -> run_server id lines
              | _ -> failwith ("unknown case kind " ^ kind))
           with Stack_overflow -> emit id "STACKOVERFLOW" ""
              | e -> emit id "EXN" (Printexc.to_string e));
           cur := None
         | None -> ())
      | _ -> buf := line :: !buf
    done
  with End_of_file -> ());
  print_string (Buffer.contents out)
