#!/bin/sh
# builds the OCaml driver around the model extracted by coq/Extract.v
set -e
cd "$(dirname "$0")"
cp ../coq/extracted/model.ml ../coq/extracted/model.mli .
ocamlfind ocamlopt -w -a -o driver model.mli model.ml driver.ml
